//! Demo for defect 2 (async-lock flavour): `Subscriber<T, AsyncLock>::next_ref()` marks the
//! latest update as observed *before* it has the read guard it is going to return. If the
//! second lock acquisition has to wait (a writer is queued) and the `next_ref()` future is
//! dropped at that point, the update is gone: it was never returned to the caller, yet every
//! later `next()` / `next_ref()` stays pending.
//!
//! Run with: cargo test -p eyeball --features async-lock --test demo
#![cfg(feature = "async-lock")]
#![allow(missing_docs)]

use std::{
    future::Future,
    pin::{pin, Pin},
    sync::Arc,
    task::{Context, Poll, Wake, Waker},
};

use eyeball::{ObservableWriteGuard, SharedObservable};

struct Noop;
impl Wake for Noop {
    fn wake(self: Arc<Self>) {}
}
fn poll_once<F: Future>(f: Pin<&mut F>, w: &Waker) -> Poll<F::Output> {
    f.poll(&mut Context::from_waker(w))
}

#[test]
fn cancelled_next_ref_loses_the_update() {
    let w = Waker::from(Arc::new(Noop));
    let ob = SharedObservable::new_async(0u32);
    let ob2 = ob.clone();
    let mut sub = ob.subscribe_reset();
    {
        let mut first = pin!(sub.next());
        assert_eq!(poll_once(first.as_mut(), &w), Poll::Ready(Some(0)));
    }

    // A write guard is held while the subscriber waits and a second writer queues up.
    let mut guard = ob.try_write().unwrap();
    let mut writer2 = Box::pin(ob2.write());
    {
        let mut next_ref = Box::pin(sub.next_ref());
        assert!(poll_once(next_ref.as_mut(), &w).is_pending());
        assert!(poll_once(writer2.as_mut(), &w).is_pending());

        ObservableWriteGuard::set(&mut guard, 1);
        drop(guard);

        // The subscriber gets the lock, sees the update and marks it as observed, releases
        // the lock (which now goes to writer2), then waits for the lock a second time.
        assert!(poll_once(next_ref.as_mut(), &w).is_pending());
        // The caller gives up on this `next_ref()` (select!, timeout, ...).
    }
    let Poll::Ready(guard2) = poll_once(writer2.as_mut(), &w) else {
        panic!("second writer should get the lock now");
    };
    drop(guard2); // no further update
    drop(writer2);

    // The value 1 was set after the subscriber last returned something (0) and was never
    // returned by it. On the default flavour the same calls (poll next_ref -> Pending, drop it,
    // set(1), poll next) give Ready(Some(1)).
    let mut next = pin!(sub.next());
    assert_eq!(
        poll_once(next.as_mut(), &w),
        Poll::Ready(Some(1)),
        "the update to 1 has not been delivered to this subscriber yet, next() must yield it"
    );
}
