// crate: eyeball-im-util (no cargo features needed); copy to eyeball-im-util/tests/demo.rs
// run with: cargo test -p eyeball-im-util --test demo        (add --release for the release numbers)
//
// Property C11: for ANY comparison / key function the sort adapters present a
// sorted permutation of the source.
//
// With many items that compare equal (a constant key, or a key with very few
// distinct values such as a bool) the sort adapters do not present anything:
// they overflow the stack and the whole process is aborted (a stack overflow is
// not a panic, it cannot be caught).  Cause: the adapters sort with
// `imbl::Vector::sort_by`, whose quicksort recurses once PER ITEM on runs of
// equal items (imbl 5.0.0, src/sort.rs: `if less_count == 0 { do_quicksort(rest, ..); return; }`).
//
// Because a stack overflow kills the test harness, the failing scenario is run
// in a child process (this same test binary, `child_*` tests, which are
// `#[ignore]`d for a normal run) and the parent asserts on its exit status.

use std::process::Command;

use eyeball_im::{ObservableVector, VectorDiff};
use eyeball_im_util::vector::VectorObserverExt;
use futures_util::{FutureExt, StreamExt};
use imbl::Vector;

/// Number of items.  4097 is enough for a debug build on a 2 MiB stack (the
/// default for spawned threads, test threads and tokio workers); an optimised
/// build needs about 8000 on 2 MiB and about 40000 on an 8 MiB main thread.
fn n() -> u32 {
    if cfg!(debug_assertions) {
        4097
    } else {
        10_000
    }
}

const STACK: usize = 2 * 1024 * 1024;

fn on_2mib_thread(f: impl FnOnce() + Send + 'static) {
    std::thread::Builder::new().stack_size(STACK).spawn(f).unwrap().join().unwrap();
}

fn check_sorted_permutation(view: &Vector<u32>, source: &Vector<u32>, key: impl Fn(&u32) -> u32) {
    assert_eq!(view.len(), source.len());
    assert!(view.iter().zip(view.iter().skip(1)).all(|(a, b)| key(a) <= key(b)));
    let mut a: Vec<u32> = view.iter().copied().collect();
    let mut b: Vec<u32> = source.iter().copied().collect();
    a.sort();
    b.sort();
    assert_eq!(a, b);
}

// ---- the scenarios (run in a child process) ---------------------------------

/// Initial values: `n` items, all with the same key.
#[test]
#[ignore = "run by the parent test in a child process"]
fn child_initial_values_constant_key() {
    on_2mib_thread(|| {
        let mut ob = ObservableVector::<u32>::new();
        ob.append((0..n()).collect());
        let (values, _stream) = ob.subscribe().sort_by_key(|_| 0u32);
        check_sorted_permutation(&values, &ob, |_| 0);
    });
}

/// An `Append` of `n` items with a two-valued key (think `sort_by_key(|x| x.is_pinned)`).
#[test]
#[ignore = "run by the parent test in a child process"]
fn child_append_bool_key() {
    on_2mib_thread(|| {
        let key = |x: &u32| (x.wrapping_mul(2_654_435_761) >> 7) % 2;
        let mut ob = ObservableVector::<u32>::new();
        let (mut view, mut stream) = ob.subscribe().sort_by_key(key);
        ob.append((0..2 * n()).collect());
        while let Some(Some(diff)) = stream.next().now_or_never() {
            let diff: VectorDiff<u32> = diff;
            diff.apply(&mut view);
        }
        check_sorted_permutation(&view, &ob, key);
    });
}

// ---- the actual (failing) tests ---------------------------------------------

fn run_child(name: &str) -> std::process::ExitStatus {
    Command::new(std::env::current_exe().unwrap())
        .args(["--exact", name, "--ignored", "--test-threads", "1"])
        .status()
        .unwrap()
}

#[test]
fn sort_by_key_with_constant_key_presents_initial_values() {
    let status = run_child("child_initial_values_constant_key");
    assert!(
        status.success(),
        "C11: sort_by_key(|_| 0) over {} items must return the (trivially sorted) items as initial \
         values, but the process running it died with {status:?} (stack overflow in \
         imbl::Vector::sort_by, called from SortImpl::new)",
        n()
    );
}

#[test]
fn sort_by_key_with_bool_key_handles_a_large_append() {
    let status = run_child("child_append_bool_key");
    assert!(
        status.success(),
        "C11: a sort_by_key view with a two-valued key must present a sorted permutation after an \
         Append of {} items, but the process running it died with {status:?} (stack overflow in \
         imbl::Vector::sort_by, called from the Append branch of the sort adapter)",
        2 * n()
    );
}
