//! Demo: Head / Tail / Skip keep polling their limit/count stream after it has
//! returned `Poll::Ready(None)`.
//!
//! A limit stream that ends is legal (the limit simply stays what it was), and
//! the `Stream` contract says a stream must not be polled again once it has
//! returned `None` ("may panic, block forever, or cause other kinds of
//! problems"). `futures_util::stream::unfold` is such a stream: it panics.
//!
//! Copy to eyeball-im-util/tests/demo.rs and run
//! `cargo test -p eyeball-im-util --test demo`.
#![allow(missing_docs)]

use std::{
    panic::{catch_unwind, AssertUnwindSafe},
    pin::Pin,
};

use eyeball_im::{ObservableVector, VectorDiff};
use eyeball_im_util::vector::VectorObserverExt;
use futures_core::Stream;
use futures_util::{stream, FutureExt, StreamExt};
use imbl::vector;

/// A finite stream of limits/counts: yields `value` once, then ends. Like every
/// `unfold` stream it must not be polled again after it has returned `None`.
fn one_limit(value: usize) -> Pin<Box<dyn Stream<Item = usize>>> {
    Box::pin(stream::unfold(Some(value), |st| async move { st.map(|v| (v, None)) }))
}

/// Polls once; `Ok(None)` = Pending, `Ok(Some(x))` = Ready(x), `Err` = the poll
/// panicked.
fn poll<S: Stream + Unpin>(s: &mut S) -> Result<Option<Option<S::Item>>, String> {
    catch_unwind(AssertUnwindSafe(|| s.next().now_or_never())).map_err(|e| {
        e.downcast_ref::<&str>()
            .map(|s| s.to_string())
            .or_else(|| e.downcast_ref::<String>().cloned())
            .unwrap_or_default()
    })
}

#[test]
fn head_polls_finished_limit_stream_again() {
    let mut ob = ObservableVector::<u32>::new();
    ob.append(vector![1, 2, 3]);
    let mut sub = ob.subscribe().dynamic_head(one_limit(2));

    // The limit 2 arrives: the view becomes [1, 2].
    assert_eq!(poll(&mut sub), Ok(Some(Some(VectorDiff::Append { values: vector![1, 2] }))));
    // Nothing more to report; during this poll the limit stream returns `None`.
    assert_eq!(poll(&mut sub), Ok(None));

    // The source changes; the limit is still 2.
    ob.push_front(0);
    assert_eq!(
        poll(&mut sub),
        Ok(Some(Some(VectorDiff::PopBack))),
        "expected the view [1, 2] to be updated to [0, 1] (PopBack, then PushFront 0) with the \
         last announced limit 2; instead the adapter polled its finished limit stream again"
    );
    assert_eq!(poll(&mut sub), Ok(Some(Some(VectorDiff::PushFront { value: 0 }))));
    assert_eq!(poll(&mut sub), Ok(None));
}

#[test]
fn tail_polls_finished_limit_stream_again() {
    let mut ob = ObservableVector::<u32>::new();
    ob.append(vector![1, 2, 3]);
    let mut sub = ob.subscribe().dynamic_tail(one_limit(2));

    assert_eq!(poll(&mut sub), Ok(Some(Some(VectorDiff::Append { values: vector![2, 3] }))));
    assert_eq!(poll(&mut sub), Ok(None));

    ob.push_back(4);
    assert_eq!(
        poll(&mut sub),
        Ok(Some(Some(VectorDiff::PopFront))),
        "expected the view [2, 3] to be updated to [3, 4] (PopFront, then PushBack 4) with the \
         last announced limit 2; instead the adapter polled its finished limit stream again"
    );
    assert_eq!(poll(&mut sub), Ok(Some(Some(VectorDiff::PushBack { value: 4 }))));
    assert_eq!(poll(&mut sub), Ok(None));
}

#[test]
fn skip_polls_finished_count_stream_again() {
    let mut ob = ObservableVector::<u32>::new();
    ob.append(vector![1, 2, 3]);
    let mut sub = ob.subscribe().dynamic_skip(one_limit(2));

    assert_eq!(poll(&mut sub), Ok(Some(Some(VectorDiff::Append { values: vector![3] }))));
    assert_eq!(poll(&mut sub), Ok(None));

    ob.push_back(4);
    assert_eq!(
        poll(&mut sub),
        Ok(Some(Some(VectorDiff::PushBack { value: 4 }))),
        "expected the view [3] to be updated to [3, 4] with the last announced count 2; instead \
         the adapter polled its finished count stream again"
    );
    assert_eq!(poll(&mut sub), Ok(None));
}

/// Same history, but the source is dropped: the adapter's stream must end, not
/// panic.
#[test]
fn head_end_of_source_after_end_of_limits() {
    let mut ob = ObservableVector::<u32>::new();
    ob.append(vector![1, 2, 3]);
    let mut sub = ob.subscribe().dynamic_head(one_limit(2));

    assert_eq!(poll(&mut sub), Ok(Some(Some(VectorDiff::Append { values: vector![1, 2] }))));
    assert_eq!(poll(&mut sub), Ok(None));

    drop(ob);
    assert_eq!(
        poll(&mut sub),
        Ok(Some(None)),
        "expected the adapter's stream to end when the source stream ends"
    );
}
