// crate: eyeball-im-util, cargo features: none (copy to eyeball-im-util/tests/demo.rs)
//
// `Filter` (constructor `Filter::new` / `VectorObserverExt::filter`, and the
// handling of `Append` / `Reset` in its stream) filters with
// `imbl::Vector::retain`. With the locked dependencies (imbl 5.0.0,
// imbl-sized-chunks 0.1.3) `retain` is wrong for every vector that is longer
// than one chunk (64 items) and has a chunk whose first slot is unused, e.g.
// after a single `pop_front`.

#![allow(missing_docs)]

use std::{
    cell::{Cell, RefCell},
    collections::HashSet,
    pin::Pin,
    sync::Arc,
    task::{Context, Poll, Wake, Waker},
};

use eyeball_im::{ObservableVector, VectorDiff};
use eyeball_im_util::vector::VectorObserverExt;
use futures_core::Stream;

struct NoopWake;
impl Wake for NoopWake {
    fn wake(self: Arc<Self>) {}
}

fn keep(x: &u32) -> bool {
    x % 3 != 0
}

/// C12: the initial values handed out by `filter` must be the filtered view of
/// the vector.
#[test]
fn filter_initial_values_of_a_vector_that_was_popped() {
    let mut ob = ObservableVector::<u32>::new();
    ob.append((0..65).collect());
    ob.pop_front();

    let source: Vec<u32> = ob.iter().copied().collect();
    let expected: Vec<u32> = source.iter().copied().filter(keep).collect();

    let (values, _stream) = ob.subscribe().filter(keep);
    let got: Vec<u32> = values.iter().copied().collect();

    assert_eq!(
        got, expected,
        "the initial values of `filter` must be exactly the items of the vector that pass the \
         filter, in order (vector: {source:?})"
    );
}

/// C12 / C06: same through the stream: the `Reset` a lagging subscriber gets
/// must carry the filtered contents of the vector.
#[test]
fn filter_reset_of_a_vector_that_was_popped() {
    let mut ob = ObservableVector::<u32>::with_capacity(1);
    let (values, mut stream) = ob.subscribe().filter(keep);
    assert!(values.is_empty());

    // Two updates with a buffer of one: the subscriber lags and is reset.
    ob.append((0..65).collect());
    ob.pop_front();

    let waker = Waker::from(Arc::new(NoopWake));
    let mut cx = Context::from_waker(&waker);
    let Poll::Ready(Some(VectorDiff::Reset { values })) = Pin::new(&mut stream).poll_next(&mut cx)
    else {
        panic!("expected a Reset");
    };

    let expected: Vec<u32> = ob.iter().copied().filter(keep).collect();
    let got: Vec<u32> = values.iter().copied().collect();
    assert_eq!(
        got, expected,
        "the Reset emitted by `filter` must carry exactly the items of the vector that pass the \
         filter, in order"
    );
}

// --- C20 -------------------------------------------------------------------

thread_local! {
    static NEXT_ID: Cell<u64> = const { Cell::new(1) };
    static LIVE: RefCell<HashSet<u64>> = RefCell::new(HashSet::new());
    static BOGUS_DROPS: RefCell<Vec<u64>> = const { RefCell::new(Vec::new()) };
}

/// A value that registers its birth and its death.
struct Tracked {
    id: u64,
    val: u32,
}

impl Tracked {
    fn new(val: u32) -> Self {
        let id = NEXT_ID.with(|n| {
            let id = n.get();
            n.set(id + 1);
            id
        });
        LIVE.with(|l| l.borrow_mut().insert(id));
        Self { id, val }
    }
}

impl Clone for Tracked {
    fn clone(&self) -> Self {
        Self::new(self.val)
    }
}

impl Drop for Tracked {
    fn drop(&mut self) {
        let id = self.id;
        if !LIVE.with(|l| l.borrow_mut().remove(&id)) {
            // Not a live value: dropped twice, or never created at all.
            BOGUS_DROPS.with(|b| b.borrow_mut().push(id));
        }
    }
}

/// C20: every value (and every clone the library makes) is dropped exactly
/// once and nothing leaks.
#[test]
fn filter_drops_every_value_exactly_once() {
    {
        let mut ob = ObservableVector::<Tracked>::new();
        ob.append((0..65).map(Tracked::new).collect());
        drop(ob.pop_front());

        // The first item (val 1) does not pass, the second one does.
        let (values, stream) = ob.subscribe().filter(|t: &Tracked| t.val % 3 != 1);
        drop(values);
        drop(stream);
        drop(ob);
    }

    let leaked = LIVE.with(|l| l.borrow().len());
    let bogus = BOGUS_DROPS.with(|b| b.borrow().clone());
    assert!(
        leaked == 0 && bogus.is_empty(),
        "after everything is gone every value must have been dropped exactly once, but {leaked} \
         value(s) were never dropped and {} drop(s) hit something that was not a live value \
         (ids {bogus:?})",
        bogus.len()
    );
}
