// crate: eyeball-im-util (no cargo features needed); copy to eyeball-im-util/tests/demo.rs
//
// Property C10: a Filter view must contain exactly the source items that pass
// the predicate, in source order.
//
// The filter adapter handles `Append` and `Reset` with `imbl::Vector::retain`.
// With the resolved dependencies (imbl 5.0.0 + imbl-sized-chunks 0.1.3) `retain`
// moves the wrong elements whenever the vector is in its tree ("Full", > 64
// items at some point) representation and a leaf chunk does not start at slot 0,
// e.g. after a `pop_front`.  The filtered view then contains items that do NOT
// pass the predicate (and possibly uninitialised memory).

use eyeball_im::{ObservableVector, VectorDiff};
use eyeball_im_util::vector::VectorObserverExt;
use futures_util::{FutureExt, StreamExt};
use imbl::Vector;

fn is_even(x: &u32) -> bool {
    x % 2 == 0
}

/// History 1: `append` of a 65-element vector whose first element was popped.
#[test]
fn filter_of_appended_vector_contains_only_matching_items() {
    let mut ob = ObservableVector::<u32>::new();
    let (initial, mut stream) = ob.subscribe().filter(is_even);
    assert!(initial.is_empty());

    let mut payload: Vector<u32> = (0..66).collect();
    payload.pop_front(); // 1, 2, ..., 65
    ob.append(payload.clone());

    let mut view = initial;
    while let Some(Some(diff)) = stream.next().now_or_never() {
        diff.apply(&mut view);
    }

    let expected: Vector<u32> = payload.iter().copied().filter(is_even).collect();
    assert!(
        view.iter().all(is_even),
        "C10: the filtered view must only contain items that pass the filter (even numbers), \
         but it is {view:?}"
    );
    assert_eq!(view, expected, "C10: the filtered view must be exactly the even items, in source order");
}

/// History 2: the same through a `Reset` (capacity 1, two updates pending).
#[test]
fn filter_after_reset_contains_only_matching_items() {
    let mut ob = ObservableVector::<u32>::with_capacity(1);
    ob.append((0..66).collect());
    let (initial, mut stream) = ob.subscribe().filter(is_even);

    ob.pop_front();
    ob.push_back(66); // second pending update: the subscriber lags and gets a Reset

    let mut view = initial;
    let mut seen_reset = false;
    while let Some(Some(diff)) = stream.next().now_or_never() {
        seen_reset |= matches!(diff, VectorDiff::Reset { .. });
        diff.apply(&mut view);
    }
    assert!(seen_reset, "test setup: expected the subscriber to lag");

    let expected: Vector<u32> = ob.iter().copied().filter(is_even).collect();
    assert_eq!(
        view, expected,
        "C10: after a Reset the filtered view must be exactly the even items of the source, in order"
    );
}
