use eyeball::Observable;
use eyeball_im::{ObservableVector, VectorDiff};
use eyeball_im_util::vector::VectorObserverExt;
use futures_util::{FutureExt, StreamExt};
use imbl::vector;

#[test]
fn stack_on_half_consumed_head() {
    let mut ob: ObservableVector<u32> = ObservableVector::new();
    ob.append(vector![1, 2, 3]);
    let limit = Observable::new(2usize);
    let (values, mut head) = ob.subscribe().dynamic_head_with_initial_value(2, Observable::subscribe(&limit));
    assert_eq!(values, vector![1, 2]);
    ob.push_front(0);
    // take only the first of the two diffs
    let d = head.next().now_or_never().unwrap().unwrap();
    assert_eq!(d, VectorDiff::PopBack);
    // now use the adapter itself as the observer of another adapter
    let (values, mut stream) = VectorObserverExt::filter(head, |_: &u32| true);
    let mut view: Vec<u32> = values.into_iter().collect();
    println!("initial values of the second stage: {view:?}");
    while let Some(Some(d)) = stream.next().now_or_never() {
        println!("diff {d:?}");
        let mut v: imbl::Vector<u32> = view.iter().copied().collect();
        d.apply(&mut v);
        view = v.into_iter().collect();
    }
    assert_eq!(view, vec![0, 1], "the chain's view must be head(2) of [0,1,2,3]");
}
