#!/usr/bin/env python3
"""Cross-property false-alarm test: every property-preserving change against every
check of its neighbourhood. An alarm here is not necessarily a false alarm (a
change that keeps C06 may break C05's statement): each one is judged by hand and
recorded in seeded/benign/CROSS.md."""
import json, glob, subprocess, sys, os
GROUPS = {
  "eyeball-im/": ["C05", "C06", "C07", "C08", "C14", "C17", "C18", "C20", "C13"],
  "eyeball-im-util/": ["C09", "C10", "C11", "C12", "C13", "C14", "C15", "C20"],
  "eyeball/": ["C01", "C02", "C03", "C04", "C16", "C19", "C20"],
}
rows = []
only = sys.argv[1:] 
for d in sorted(glob.glob('/verif/seeded/benign/*/')):
    name = os.path.basename(d.rstrip('/'))
    if only and name not in only: continue
    patch = d + 'patch.diff'
    txt = open(patch).read()
    props = []
    for pre, ps in GROUPS.items():
        if ("a/" + pre) in txt:
            for p in ps:
                if p not in props: props.append(p)
    res = {}
    try:
        subprocess.run(["git", "-C", "/repo", "apply", patch], check=True)
        for p in props:
            r = subprocess.run(["/verif/check", p, "quick"], capture_output=True, text=True)
            sig = [l.strip() for l in (r.stdout + r.stderr).splitlines() if l.startswith(("  signature", "  harness", "MACHINERY"))][:2]
            res[p] = (r.returncode, sig)
    finally:
        subprocess.run(["git", "-C", "/repo", "checkout", "--", "."])
    alarms = {p: v for p, v in res.items() if v[0] != 0}
    print(name, "alarms:", {p: v[1] for p, v in alarms.items()} if alarms else "none", flush=True)
    m = json.load(open(d + 'meta.json')); m['cross'] = {p: {"exit": v[0], "sig": v[1]} for p, v in res.items()}
    json.dump(m, open(d + 'meta.json', 'w'), indent=1)
