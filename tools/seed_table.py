#!/usr/bin/env python3
"""Regenerates /verif/seeded/README.md from the meta.json files."""
import json, glob
rows = []
for d in sorted(glob.glob('/verif/seeded/C*/')):
    m = json.load(open(d + 'meta.json'))
    ok = m['patch_applies'] and m['suite_with_change']['failed'] == 0 and m['demo_with_change'] == 'fails' and m['demo_without_change'] == 'passes'
    rows.append("| %s | %s | %s | %s | %s |" % (m['id'], m.get('round', 1 if m['id'][-1] in '12' else 1), m.get('needs_to_manifest', '').replace('|', '/'),
                ", ".join(m['detected_by']) or "MISSED", m.get('history', 'caught at first run') + ("" if ok else " [NOT VALID]")))
out = """# Independently written property-breaking changes

Each directory: `patch.diff` (applies to /repo HEAD with `git -C /repo apply`), `demo.rs` (integration test that
fails with the change and passes without it; crate in `meta.json`), `NOTES.md` (the author's notes), `meta.json`
(property, what it needs to manifest, what was run, which checks report it).
Written by fresh sub-agents that saw only the property text and a scratch worktree; validated with
`tools/seedval.py` (suite passes with the change, demo fails with / passes without, then the quick checks are run
with the change applied to /repo, which is reverted afterwards). Rounds 1-2: two per property; round 3: "deeper"
changes (longer histories, larger vectors, combinations) for twelve properties.

| id | round | needs, to manifest | detected by | history |
|---|---|---|---|---|
""" + "\n".join(rows) + "\n"
brows = []
for d in sorted(glob.glob('/verif/seeded/benign/*/')):
    m = json.load(open(d + 'meta.json'))
    st = m.get('suite_with_change', {})
    cross = m.get('cross', {})
    cal = ["%s (%s)" % (p, "; ".join(x.replace("signature: ", "") for x in v.get('sig', []))) for p, v in sorted(cross.items()) if v.get('exit')]
    brows.append("| %s | %s | %s passed / %s failed (literal-diff assertions) | %s | %s |" % (m['id'], m['keeps_property'], st.get('passed'), st.get('failed'),
                 "silent" if not m['false_alarms'] else "ALARM " + ",".join(m['false_alarms']),
                 ("%d checks: " % len(cross) + ("all silent" if not cal else "alarm under " + ", ".join(cal) + " - judged in DESIGN.md 0.8")) if cross else "-"))
out += """
## Property-preserving changes (`benign/`): the checks must stay silent

| id | keeps | existing suite with the change | quick check of that property | all checks of the neighbourhood (tools/benign_cross.py) |
|---|---|---|---|---|
""" + "\n".join(brows) + "\n"
open('/verif/seeded/README.md', 'w').write(out)
print(len(rows), "rows;", sum(1 for r in rows if "MISSED" in r), "missed")
