#!/usr/bin/env python3
"""Regenerates /verif/MANIFEST.json from the table below (single source of
truth for what is claimed)."""
import json, subprocess

SEQ = "bounded exhaustive operation-sequence model checking of the real code (iterative-deepening DFS over all token sequences, lock-step reference model)"
LOOM = "exhaustive thread-interleaving exploration of the real code under loom (DPOR, preemption-bounded)"

CHECKS = {
 "C05": dict(design="5 (C05)", tech=SEQ,
   text="Every sequence of vector mutators (all in-range arguments), entry operations, committed transactions, subscription points and poll placements up to depth 4 (quick) / 5 (thorough) on vectors of length <= 4 from every initial length 0..3 is executed on the real ObservableVector with 1-3 real subscribers; after every call the published message must take the pre-state to the post-state, be exactly one diff for a direct call and nothing for the documented no-ops, and every subscriber (plain or batched, however it is polled) must receive exactly the diffs an always-drained batched subscriber received - also when the vector is dropped while diffs are still undelivered (drop epilogue: a stream that ends before it delivered them is reported). Vectors of 66 and 131 items (beyond one imbl chunk) with operations at the front, the chunk boundary, the middle and the back to depth 2/3 (c05-tree; c06-tree and c17-tree, c20-vec-tree use the same configurations). Exhaustive within the bounds, which is the right level for an 'all histories, all polling patterns' statement that needs no concurrency.",
   note="capacity 16 >= depth (no lag); tokio broadcast, imbl trusted; bounds as in evidence.coverage.bounds"),
 "C06": dict(design="5 (C06)", tech=SEQ,
   text="Capacities 1, 2, 3 (ring of 4) and 16; every sequence over a reduced alphabet (one mutator per diff kind, transactions, polls of manual subscribers) to depth 6-7 (quick) / 7-8 (thorough) plus the full alphabet to depth 4/5 for capacities 1-2. A Reset is accepted only when more than `capacity` messages were pending for that subscriber (counted from message boundaries learned from an always-drained subscriber), must carry the current contents, every Pending answer requires replica == contents, every diff must be applicable, every batched item must bring the replica up to date. A second engine (mc_pause, library built with the pause hooks) enumerates which sender operations run at which pause point inside a poll (before each try_recv of the batched drain loop and of handle_lag), capacities 1-2, depth 5/6: sender/receiver interleavings within one poll.",
   note="the pending count follows the stream's receive behaviour (plain: one message per receive, batched/lag: all); tokio's rounding of the ring only makes Resets rarer"),
 "C07": dict(design="5 (C07)", tech=SEQ,
   text="Bracketed transaction tokens (begin, any mutator incl. clear/entry ops/out-of-range-free ops, rollback, commit, drop, or the sequence simply ending inside the transaction) with subscriber polls and subscriber drops allowed inside, full alphabet to depth 4 (quick) / 5 (thorough) and reduced alphabet to depth 6 / 8, capacities 16 and 1, with and without subscribers. Nothing may be published while a transaction is open or after it is abandoned, contents must be untouched by abandoned work, Deref of the transaction must show the working copy, a commit publishes one non-empty message taking pre to post, nothing if nothing was recorded.",
   note="a transaction's clear() on an empty working copy may or may not record a Clear (DESIGN 8)"),
 "C08": dict(design="5 (C08)", tech=SEQ,
   text="Every history (reduced alphabet depth 6/7, full alphabet depth 3/4; capacities 1, 2, 16; plain and batched; manual and eager polling) followed by dropping the vector, as a token at any point and as the epilogue of every sequence; every stream is then polled to its end. No stream may end while the vector lives, after the drop everything pending (or a Reset to the final state) is delivered before None, the replica at None equals the final contents, and the waker of a Pending subscriber is woken by the drop. The evidence counts the four situations (up to date / mid-batch / behind within capacity / behind beyond capacity) separately. Runs of 34 / 70 updates pending at the drop (capacity 128) and, on the pause-point build (mc_pause), sender operations inside a poll followed by the drop are covered as well.",
   note="found the lost-final-state defect repaired by repo commit 57072f3 (see known_findings.json)"),
 "C17": dict(design="5 (C17)", tech=SEQ,
   text="Every mutator of ObservableVector and of the transaction with every in-range argument and with out-of-range indices len, len+1, len+2 (under catch_unwind: must panic, contents unchanged, nobody notified), depth 4 (quick) / 5 (thorough) from initial lengths 0..3, compared call by call with a plain Vec model (return values and contents). Traversal: every decision vector keep/set/remove/set-then-remove/stop over vectors of length 0..4 (5 thorough) through for_each and entries(), directly and inside a transaction: each element visited once in order, index() equals the current position, removal does not skip the successor, contents and emitted diffs equal the model's.",
   note="imbl's own panics count as panics of the mutator"),
 "C09": dict(design="5 (C09)", tech=SEQ,
   text="Head, Tail and Skip, each with a static limit 0..4, a purely dynamic limit and a dynamic limit with initial value 0..4, fed by an eyeball Observable (subscribe / subscribe_reset) or a queue that delivers every announced value and, unlike a fused stream, records being polled again after its end (reported: found repo fix 724d97a); plain and batched subscriber; capacities 16 and 1 (Reset from lag); eager and manual polling; initial vectors of length 0..3. Every sequence of source mutators, transactions, limit announcements 0..5 and polls to depth 3 (quick) / 4 (thorough), plus limit-source and vector drops on a reduced alphabet to depth 4/5, and vectors of 66 and 131 items with limits around the 64-item chunk boundary (sweep c09-tree, depth 2/3). A transparent tap below the adapter gives one view check per input-item boundary and per Pending against first/last/all-but-first of the input replica under the limit the adapter has seen; at Pending the limit must be the latest announced and the input replica the live vector; every diff must be applicable; the stream ends only after the source has ended, and once the source has ended it hands out what it still holds and ends (never Pending again).",
   note="one open finding (F5, dynamic Tail limit decrease, pinned by a repository test) is recognised by its exact signature; subscriber-stream faults are C05-C08's business and counted as foreign"),
 "C10": dict(design="5 (C10)", tech=SEQ,
   text="Filter and FilterMap (predicate key != 0, every pass/fail pattern of the initial vector up to length 3 and of every inserted item), plain and batched, capacities 16, 2 and 1 so that Resets including Resets to all-rejected contents occur, eager and manual polling; every sequence to depth 3 (quick) / 4 (thorough) on the full alphabet and 5/6 on a reduced one; vectors of 66 and 131 items (beyond one imbl chunk), with 0-2 pop_front calls before anybody subscribes, to depth 2/3 (sweep c10-tree). Checked at every input-item boundary and every Pending: view == passing items (mapped) of the input, in order; diffs applicable; end of stream exactly with the source.",
   note="found the swallowed-Reset defect repaired by repo commit b6cbe9f; the Vector::retain defect (repo cc44176) was reported by a defect-hunting agent and is covered by c10-tree since"),
 "C11": dict(design="5 (C11)", tech=SEQ,
   text="Sort (Ord on (key,id)), SortBy and SortByKey (keys only, so ties exist) over keys {0,1,2}: every key pattern of the initial vector (length 0..2 quick, 0..3 thorough) and of every inserted/replaced item, plain and batched, capacities 16 and 1, eager and manual; every sequence to depth 3/4 (full alphabet) and 4/5 (reduced, with lag and drop). Oracle at every boundary and Pending: the view is a permutation of the input (multiset on (key,id)) and ordered by the comparison; stability is not demanded.",
   note="one open finding (F7, Truncate forwarded verbatim, pinned by repository tests) is recognised only if the view was correct immediately before the verbatim Truncate (or, in a direct join, if the sort stage's only output for a truncating input is a Truncate); vectors of 66 and 131 items in sweep c11-tree; one configuration per flavour starts from 12003 items of which 12001 are equal (sweep c11-equal-run, found repo fix 35f62b6; a process that dies there is localised and reported like a C20 crash)"),
 "C12": dict(design="5 (C12)", tech=SEQ,
   text="All 400 chains of two stages over a menu of 20 stage kinds (head/tail/skip static, dynamic via Observable, dynamic via queue, dynamic with initial value; filter, filter_map, sort, sort_by, sort_by_key), both flavours, six initial vectors, full alphabet depth 2 (quick) / 3 (thorough) and reduced alphabet depth 3/4 (incl. capacity 1); chains of three stages (10 kinds quick, 20 thorough) depth 2/3; and the 'adapter itself as observer' form (dynamic head/skip value with the next stage built directly on it, no tap in between; dynamic-with-initial-value head/tail/skip kept as values so that into_parts runs with a non-zero limit). A tap between all stages gives every stage its own input and view replica; every stage is checked against the stage below it from the initial values on. Late stacking: the second stage is built on a dynamic adapter that has already been polled - after a drain (c12-late-stack) and, with manual polls, in the middle of an input item while the adapter still holds a parked second diff (c12-late-stack-mid-item). Six two-stage chains over vectors of 66 and 131 items (c12-tree).",
   note="found the into_parts defects repaired by repo commits e6f750d and cab38c8; F5 and F7 surface in chains with their single-stage signatures"),
 "C13": dict(design="5 (C13)", tech=SEQ,
   text="Batched flavour with multi-operation transactions: every fixed-parameter adapter (static head/tail/skip 0..3, filter, filter_map, sort*) and 49 fixed two-stage chains run next to the same chain on a plain subscriber of the same vector; whenever both are quiescent (also at the end of the streams after the vector was dropped) the flattened diff lists must be identical; no batch may be empty; after every batch (one source batch or one limit change) the view must equal the adapter's view of its input, which below the chain is a state the vector had between top-level operations. Dynamic adapters and lag (capacity 1) are covered in batched flavour without twin. Depth 3/4 (full alphabet), 4/5 (reduced).",
   note="view divergences in batched configurations are blamed on C13 in this check; F5/F7 recognised by signature"),
 "C14": dict(design="5 (C14)", tech=SEQ,
   text="Polls are tokens, so every placement of a poll relative to every source update, limit/count change, limit-source drop and vector drop is enumerated (manual polling, depth 4/5 reduced and 2/3 full alphabet for single adapters incl. all limit sources, depth 3/4 for all 400 two-stage chains; plain and batched subscriber streams themselves to depth 5/7). Every poll gets a fresh flag waker; a stream that answers Ready after a Pending poll whose waker was never woken is a violation; for the subscriber streams the waker must already be woken when the broadcasting call (or the drop) returns; an adapter may answer Pending only if the stream below it answered Pending to the same poll (sweep c14-bursts: runs of 33 and 70 updates between two polls).",
   note="spurious wake-ups are allowed; the queue limit source registers wakers correctly by construction"),
 "C15": dict(design="5 (C15)", tech=SEQ,
   text="Static Head and Tail with limits 0..4, both flavours, capacities 16 and 1, initial vectors 0..3 (0..4 in the deep sweep): every sequence to depth 4 (quick) / 5 (thorough) on the full alphabet and 5/7 on the reduced one; the rebuilt view's length is compared with the limit after each individual diff (inside batches too) and for the initial values.",
   note="checked on the tap's per-diff replica; a wrong view with a legal length is C09's business"),
 "C01": dict(design="4 (C01)", tech=SEQ,
   text="Every sequence of setters (set, set_if_not_eq, set_if_hash_not_eq, take, update, update_if with all four mutate/answer combinations; three values of which two are different but hash-equal) on the unique Observable, on SharedObservable clones and through write guards, interleaved with every subscriber call (poll as Stream / next() / next_ref(), next_now, next_ref_now, get, read, reset, clone, clone_reset, drop) on up to 2-3 subscribers, to depth 4 (quick) / 5 (thorough) from 11 start states, in lock-step with a value/epoch model: every value handed out is the latest, a poll is Ready exactly when the model says an unobserved notifying update exists (or after reset), every setter returns and notifies exactly as stated, get/read never mark, next_now marks, clone copies.",
   note="single-threaded (thread schedules are C02-C04's loom half); hash collisions of DefaultHasher not considered"),
 "C02": dict(design="4 (C02)", tech=SEQ + " + " + LOOM, engine="seqmc+loom",
   text="Operation granularity: in every enumerated history (depth 4/5, up to 3 subscribers) every subscriber whose last poll was Pending must have that poll's waker woken by the time a notifying update or the drop of the last owner returns - checked for every pending subscriber at once. Thread granularity: loom explores every interleaving (preemption bound 2-3 quick, 3/unbounded thorough) of five hand-written and ~50 generated programs (one or two subscriber threads looping on next() on a park-style executor against every writer sequence of length <= 2 over set / update / non-notifying set_if_not_eq / write-guard double set followed by the drop of the owner, for SharedObservable and for the unique Observable); a lost wake-up is a deadlock that loom reports.",
   note="loom half covers the sync flavour only; RwLock fairness not modelled (loom admits more schedules)"),
 "C03": dict(design="4 (C03)", tech=SEQ + " + " + LOOM, engine="seqmc+loom",
   text="History half: after every token of every history of clone / drop / downgrade / upgrade / into_shared / subscribe / set / poll (depth 4/5, up to 3 handles, 2 weak references) every subscriber is probed through a reset clone: Ready(None) exactly when no owner exists; get/read keep the last value after the end; upgrade succeeds exactly while an owner exists. Schedule half: loom explores all interleavings of two or three clones dropped on different threads, of the last drop racing with WeakObservable::upgrade, of clone racing with drop, and of every pair of {drop, clone-and-drop-both, downgrade-drop-upgrade, subscribe-drop} run on two threads next to a blocked subscriber; afterwards the stream must have ended (or be open while an upgraded owner lives).",
   note="found the concurrent-last-drop defect repaired by repo commit ed96a5a"),
 "C04": dict(design="4 (C04)", tech=LOOM + " + " + SEQ, engine="loom+seqmc",
   text="Nine hand-written two-/three-thread programs on clones of one SharedObservable (set||set, update||update||get, set_if_not_eq twice, read guard vs set, write guard vs get/next_now, writer vs subscriber thread, subscribe vs set, next_now vs set, next_ref_now/get vs two sets) plus generated ones - every unordered pair of {set(1), set(2), update, set_if_not_eq, take, get, write-guard double set} on two threads (all 2-against-1 triples in the thorough tier), and every subscriber-side sequence of length <= 2 over {next_now, next_ref_now, poll next, get, read} against one or two increments - explored over every interleaving (bound 3 quick, unbounded thorough); recorded invocation/response histories are checked by brute force against the sequential register specification, plus direct invariants (no lost increment, exactly one winner, monotone subscriber). The guard-exclusion facts are additionally enumerated sequentially with try_read/try_write probes under every guard kind.",
   note="histories have <= 4 operations; loom's RwLock has no writer preference"),
 "C16": dict(design="4 (C16)", tech=SEQ,
   text="The C01-C04 sequential sweeps (values, wake-ups, handle histories, guard exclusion; depth 3-4 quick, 4-5 thorough) are run on Observable::new_async / SharedObservable::new_async and Subscriber<_, AsyncLock> through the same token language against the same reference model as the sync flavour; every async call is polled by a hand-rolled executor and must complete on its first poll when no guard is held. Second half: guard tasks parked on harness gates while holding a write or read guard, with set / set_if_not_eq / get / subscriber next() tasks queued behind them; tokens spawn, poll, open-gate, cancel and settle (poll woken tasks until quiescent) to depth 4-6 (quick) / 5-7: exclusion, results at completion order, and no task may stay pending once every gate is open and no woken waker is left. Subscribers outlive their tasks: a cancelled next() / next_ref() / stream-poll future leaves its subscriber behind, which is polled again at the next settle and must still deliver whatever it had not handed out (sweep c16-cancelled-subscriber-futures, depth 7/8, found repo fix 950b7f6).",
   note="thread-level schedules of the async flavour are out of reach (tokio is not under loom); tokio's RwLock/semaphore trusted"),
 "C19": dict(design="4 (C19)", tech=SEQ,
   text="After every token of every handle history (clone, subscribe, subscribe_reset, downgrade, weak clone, upgrade, into_shared, subscriber clone, every drop; up to 3 handles, 3 subscribers, 2 weak references; depth 4 quick / 5 thorough) observable_count, subscriber_count (both observable kinds), strong_count and weak_count are compared with the model, for both lock flavours.",
   note="found the async-flavour double count repaired by repo commit 0ab6e9f"),
 "C18": dict(design="5 (C18)", tech="exhaustive enumeration of all inputs up to a size bound on the real code (explicit-state, no sampling)",
   text="All vectors of length 0..3 (0..5 thorough) over three values x all eleven diff kinds with every index/length 0..len+2 and every payload of length 0..2 (0..3) x four element mappings (identity, +10 into another type, constant, to String): apply(map(d), map(v)) == map(apply(d, v)) including agreement on panics, map(identity) == d, and apply equals the documented plain-vector meaning, panicking exactly for insert/set/remove past the end. Plus large shapes: vectors of length 0/1/63/64/65/129 with Append/Reset payloads of every length 0..200 (0..520 thorough, ordered distinct content crossing imbl's 64-element leaves) and every index for the other kinds. The input space within the bound is enumerated completely; the property has no history or schedule dimension.",
   note="imbl::Vector trusted; sizes beyond the bound not covered"),
 "C20": dict(design="5 (C20)", tech=SEQ,
   text="The vec, adapter/chain and observable enumerations re-instantiated with an instrumented element/value type whose thread-local registry sees every construction, clone and drop: a drop, clone, comparison or read of an instance that is not live is an immediate violation; after each sequence, once every observable, vector, subscriber, stream, adapter, replica and model is dropped, no instance may be alive. Token sets reach the three unsafe sites (into_shared with and without subscribers, the reusable boxed receive future on every completed poll, the YieldBatch->Recv swap incl. a stream dropped mid-batch with a further unreceived update; configurations without the always-drained subscriber so that every receiver can go away in the middle of a transaction; adapters over vectors of 66 and 131 items, sweep c20-adp-tree). The accounting is made also when another property's oracle stops a sequence first. If the subject kills the process (double free, segfault) the driver re-runs the enumeration single-threaded under glibc's checking allocator, bisects to the culprit sequence and reports it with a replayable range.",
   note="a use-after-free that neither touches the instrumented type nor trips the allocator is not seen; a signal death is accepted as a verdict only for this property"),
}

NOT_YET = "check not built yet (work in progress, see DESIGN.md section 12)"

def main():
    ids = [json.loads(l)["id"] for l in open("/verif/properties.jsonl")]
    hooks_commits = ['441d561', 'b8ac502']
    m = {
      "version": 1,
      "setup_cmd": "./check setup",
      "hooks": {
        "guard": "cfg(eyeball_verif)",
        "enable": "RUSTFLAGS=\"--cfg eyeball_verif\" when building /verif/lm (loom engine: std::sync -> loom stand-ins in crate eyeball) and /verif/mcp (pause-point explorer: pause points in eyeball-im's subscriber streams); the sequential engine /verif/mc compiles /repo exactly as shipped",
        "baseline_off_cmd": "cd /repo && (cargo nextest run --workspace --no-fail-fast --offline 2>/dev/null || cargo test --workspace --no-fail-fast --offline)",
        "source_commits": hooks_commits,
        "add_only": True,
      },
      "engines": [
        {"name": "loom", "path": "lm", "serves_properties": ["C02", "C03", "C04"],
         "kind_free_text": "loom DPOR exploration of all thread interleavings of small concurrent programs on the real sync-flavour code compiled against loom-backed Arc/Weak/RwLock stand-ins (cfg eyeball_verif)"},
        {"name": "seqmc+pause-points", "path": "mcp", "serves_properties": ["C06", "C08"],
         "kind_free_text": "the same explorer on eyeball-im built with the pause hooks: sender operations are executed inside the subscriber's poll, at enumerated pause points"},
        {"name": "seqmc", "path": "mc", "serves_properties": sorted(CHECKS.keys()),
         "kind_free_text": "explicit enumeration of all operation/poll/configuration sequences up to a depth bound, executed on the real objects next to a reference model (stateless re-execution, iterative deepening, 16 workers)"},
      ],
      "checks": [],
      "notes": "Every check: ./check <ID> quick|thorough (exit 0 held / 1 VIOLATION line / 2 machinery failure). Known findings: known_findings.json. Replay: ./check replay <file>.",
      "not_applicable": [],
    }
    for i in ids:
        if i in CHECKS:
            c = CHECKS[i]
            m["checks"].append({
              "property_id": i,
              "quick_cmd": "./check %s quick" % i,
              "thorough_cmd": "./check %s thorough" % i,
              "evidence_file": "/verif/evidence/%s.json" % i,
              "replay_cmd_template": "./check replay {path}",
              "engine": c.get("engine", "seqmc"),
              "level_claimed": {"category": "model_checking", "text": c["text"], "design_ref": "DESIGN.md section " + c["design"]},
              "level_note": c["note"],
              "technique": c["tech"],
            })
        else:
            m["not_applicable"].append({"property_id": i, "reason": NOT_YET})
    json.dump(m, open("/verif/MANIFEST.json", "w"), indent=1)

main()
