#!/bin/bash
# Runs every registered check of the given tier on the current tree, prints
# exit code and wall time per property. Used before committing evidence.
tier=${1:-quick}
cd /verif
if [ -n "$(git -C /repo status --porcelain)" ]; then echo "WARNING: /repo working tree is not clean"; fi
for p in C01 C02 C03 C04 C05 C06 C07 C08 C09 C10 C11 C12 C13 C14 C15 C16 C17 C18 C19 C20; do
  s=$(date +%s.%N)
  ./check $p $tier > /tmp/run_all_$p.txt 2>&1
  code=$?
  e=$(date +%s.%N)
  printf "%s exit %d %.0fs %s\n" $p $code $(echo "$e - $s" | bc) "$(grep -cE '^KNOWN-FINDING' /tmp/run_all_$p.txt) known-finding line(s)"
  grep -E "^VIOLATION|MACHINERY" /tmp/run_all_$p.txt | head -3
done
