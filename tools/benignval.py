#!/usr/bin/env python3
"""Run the checks against a property-PRESERVING change (false-alarm test).
usage: benignval.py <ID> <k> <PROP> [<PROP>...]   input: /tmp/seed/<ID>b/out/<k>/{patch.diff,NOTES.md}
Applies the patch to /repo, runs ./check <PROP> quick for each PROP, reverts /repo.
Expected: every check exits 0. Writes /verif/seeded/benign/<ID>-<k>/."""
import json, os, shutil, subprocess, sys
ID, k = sys.argv[1], sys.argv[2]
props = sys.argv[3:]
src = "/tmp/seed/%sb/out/%s" % (ID, k)
if not os.path.isdir(src):
    src = "/verif/seeded/benign/%s-%s" % (ID, k)
patch = os.path.join(src, "patch.diff")
meta = {"id": "%s-benign-%s" % (ID, k), "keeps_property": ID, "checks_run": props}
r = subprocess.run(["git", "-C", "/repo", "apply", "--check", patch], capture_output=True, text=True)
if r.returncode != 0:
    r2 = subprocess.run(["git", "-C", "/repo", "apply", "-C1", "--recount", "--check", patch], capture_output=True, text=True)
    if r2.returncode != 0:
        print("PATCH DOES NOT APPLY", r.stderr); sys.exit(1)
    applyargs = ["-C1", "--recount"]
else:
    applyargs = []
results = {}
try:
    subprocess.run(["git", "-C", "/repo", "apply"] + applyargs + [patch], check=True)
    t = subprocess.run("cd /repo && cargo test --workspace --no-fail-fast --offline 2>&1 | grep -E '^test result|^test .* FAILED|^error'", shell=True, capture_output=True, text=True).stdout
    res = [l for l in t.splitlines() if l.startswith("test result")]
    meta["suite_with_change"] = {"passed": sum(int(l.split()[3]) for l in res), "failed": sum(int(l.split()[5]) for l in res),
                                 "failing_tests": [l for l in t.splitlines() if "FAILED" in l and l.startswith("test ")][:20], "errors": [l for l in t.splitlines() if l.startswith("error")][:3]}
    print("suite with change:", meta["suite_with_change"]["passed"], "passed,", meta["suite_with_change"]["failed"], "failed", meta["suite_with_change"]["errors"])
    for p in props:
        r = subprocess.run(["/verif/check", p, "quick"], capture_output=True, text=True)
        lines = [l for l in (r.stdout + r.stderr).splitlines() if l.startswith(("VIOLATION", "MACHINERY", "  signature", "  tokens", "  step", "  harness", "  cfg"))]
        results[p] = {"exit": r.returncode, "report": lines[:8]}
        print("check %s exit %d" % (p, r.returncode)); print("\n".join(lines[:6])[:1500])
finally:
    subprocess.run(["git", "-C", "/repo", "checkout", "--", "."])
meta["check_results"] = results
meta["false_alarms"] = [p for p, v in results.items() if v["exit"] != 0]
out = "/verif/seeded/benign/%s-%s" % (ID, k)
os.makedirs(out, exist_ok=True)
try:
    # keep the result of the cross-property run (tools/benign_cross.py)
    old = json.load(open(os.path.join(out, "meta.json")))
    if "cross" in old:
        meta["cross"] = old["cross"]
except Exception:
    pass
if os.path.abspath(src) != os.path.abspath(out):
    shutil.copy(patch, out)
    if os.path.exists(os.path.join(src, "NOTES.md")):
        shutil.copy(os.path.join(src, "NOTES.md"), out)
json.dump(meta, open(os.path.join(out, "meta.json"), "w"), indent=1)
print("SILENT (as it should be)" if not meta["false_alarms"] else "ALARM RAISED by %s" % meta["false_alarms"])
