#!/usr/bin/env python3
"""Regression: re-run the checks against every stored seeded change (checks only)."""
import json, glob, subprocess, sys
missed = []
only = sys.argv[1:]
for d in sorted(glob.glob('/verif/seeded/C*/')):
    m = json.load(open(d + 'meta.json'))
    if only and not any(m['id'].startswith(o) for o in only):
        continue
    ID, k = m['id'].split('-')
    props = sorted(set(m.get('detected_by', []) + [m['breaks_property']]))
    r = subprocess.run(['python3', '/verif/tools/seedval.py', ID, k, m.get('demo_crate', 'eyeball'), *props, '--checks-only'], capture_output=True, text=True)
    last = [l for l in r.stdout.splitlines() if l.startswith(('VALID', 'INVALID'))]
    print(m['id'], last[-1] if last else ('ERROR ' + r.stdout[-300:] + r.stderr[-300:]), flush=True)
    m2 = json.load(open(d + 'meta.json'))
    if not m2.get('detected_by'):
        missed.append(m['id'])
print("MISSED:", missed)
