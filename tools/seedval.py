#!/usr/bin/env python3
"""Validate an independently written property-breaking change and run the
checks against it.

usage: seedval.py <ID> <k> <crate> <PROP> [<PROP>...] [--features F] [--tier T]
  /tmp/seed/<ID>/out/<k>/{patch.diff,demo.rs,NOTES.md} is the input.
Steps (all in a scratch worktree /tmp/seedval, never in /repo except step 4):
  1. patch applies; full test suite passes WITH the change
  2. demo fails WITH the change
  3. demo passes WITHOUT the change
  4. apply to /repo, run ./check <PROP> for each PROP, revert /repo
Writes /verif/seeded/<ID>-<k>/{patch.diff, demo.rs, NOTES.md, meta.json}.
"""
import json, os, shutil, subprocess, sys

args = sys.argv[1:]
checks_only = "--checks-only" in args
if checks_only:
    args.remove("--checks-only")
feat = None
tier = "quick"
if "--features" in args:
    i = args.index("--features"); feat = args[i + 1]; del args[i:i + 2]
if "--tier" in args:
    i = args.index("--tier"); tier = args[i + 1]; del args[i:i + 2]
ID, k, crate = args[0], args[1], args[2]
props = args[3:]
src = "/tmp/seed/%s/out/%s" % (ID, k)
if not os.path.isdir(src):
    src = "/verif/seeded/%s-%s" % (ID, k)
patch = os.path.join(src, "patch.diff")
demo = os.path.join(src, "demo.rs")
WT = "/tmp/seedval"
env = dict(os.environ, CARGO_TARGET_DIR=WT + "/target", CARGO_NET_OFFLINE="true")

def sh(cmd, cwd=WT, **kw):
    return subprocess.run(cmd, shell=True, cwd=cwd, env=env, capture_output=True, text=True, **kw)

if checks_only:
    old = json.load(open("/verif/seeded/%s-%s/meta.json" % (ID, k)))
    meta = old
    failed, fail_with, ok_without = 0, True, True
    # the stored patch is already rebased onto /repo HEAD if that was necessary
    r = subprocess.run(["git", "-C", "/repo", "apply", "--check", patch], capture_output=True, text=True)
    if r.returncode != 0:
        subprocess.run("git -C /repo apply -C1 --recount --check %s" % patch, shell=True, check=True)
        import tempfile
        subprocess.run("git -C /repo apply -C1 --recount %s && git -C /repo diff > /tmp/rebased_seed.diff && git -C /repo checkout -- ." % patch, shell=True, check=True)
        patch = "/tmp/rebased_seed.diff"
else:
    if not os.path.isdir(WT):
        r = subprocess.run(["git", "-C", "/repo", "worktree", "add", "-q", "--detach", WT, "HEAD"]); assert r.returncode == 0
    sh("git checkout -q --detach $(git -C /repo rev-parse HEAD) && git checkout -- . && git clean -fdq -e target")
    meta = {"id": "%s-%s" % (ID, k), "breaks_property": ID, "checks_run": props, "tier": tier, "source": "written by an independent sub-agent given only the property text"}
    r = sh("git apply --check %s && git apply %s" % (patch, patch))
    if r.returncode != 0:
        # written against a slightly older HEAD (before the pause-point hooks):
        # apply with reduced context and keep the rebased patch
        r = sh("git apply -C1 --recount %s" % patch)
        if r.returncode == 0:
            rebased = "/tmp/seedval/rebased.diff"
            d = sh("git diff")
            open(rebased, "w").write(d.stdout)
            patch = rebased
            meta["patch_rebased"] = "context lines changed by the later hook commit b8ac502; applied with git apply -C1 and re-diffed"
    meta["patch_applies"] = r.returncode == 0
    if r.returncode != 0:
        print("PATCH DOES NOT APPLY", r.stderr); sys.exit(1)
    r = sh("cargo test --workspace --no-fail-fast --offline 2>&1 | grep -E '^test result|error(\\[|:)' ")
    res = [l for l in r.stdout.splitlines() if l.startswith("test result")]
    passed = sum(int(l.split()[3]) for l in res); failed = sum(int(l.split()[5]) for l in res)
    meta["suite_with_change"] = {"passed": passed, "failed": failed, "errors": [l for l in r.stdout.splitlines() if "error" in l][:3]}
    print("suite with change: passed %d failed %d" % (passed, failed))
    dst = os.path.join(WT, crate, "tests", "demo.rs")
    shutil.copy(demo, dst)
    f = (" --features " + feat) if feat else ""
    r = sh("cargo test -p %s --test demo --offline%s 2>&1 | tail -40" % (crate, f))
    fail_with = "test result: FAILED" in r.stdout or "panicked" in r.stdout
    meta["demo_with_change"] = "fails" if fail_with else "PASSES (unexpected)"
    print("demo with change:", meta["demo_with_change"])
    if not fail_with:
        print(r.stdout[-1500:])
    sh("git apply -R %s" % patch)
    r = sh("cargo test -p %s --test demo --offline%s 2>&1 | tail -15" % (crate, f))
    ok_without = "test result: ok" in r.stdout and "FAILED" not in r.stdout
    meta["demo_without_change"] = "passes" if ok_without else "FAILS (unexpected)"
    print("demo without change:", meta["demo_without_change"])
    if not ok_without:
        print(r.stdout[-1500:])
    os.remove(dst)

# step 4
results = {}
try:
    r = subprocess.run(["git", "-C", "/repo", "apply", patch]); assert r.returncode == 0
    for p in props:
        r = subprocess.run(["/verif/check", p, tier], capture_output=True, text=True)
        lines = [l for l in (r.stdout + r.stderr).splitlines() if l.startswith(("VIOLATION", "MACHINERY", "  signature", "  tokens", "  step", "  harness"))]
        results[p] = {"exit": r.returncode, "report": lines[:6]}
        print("check %s exit %d" % (p, r.returncode)); print("\n".join(lines[:5])[:900])
finally:
    subprocess.run(["git", "-C", "/repo", "checkout", "--", "."])
meta["check_results"] = results
meta["detected_by"] = [p for p, v in results.items() if v["exit"] == 1]
out = "/verif/seeded/%s-%s" % (ID, k)
os.makedirs(out, exist_ok=True)
if os.path.abspath(src) != os.path.abspath(out) and not checks_only:
    shutil.copy(patch, out); shutil.copy(demo, out)
if os.path.abspath(src) != os.path.abspath(out) and os.path.exists(os.path.join(src, "NOTES.md")):
    shutil.copy(os.path.join(src, "NOTES.md"), out)
meta["demo_crate"] = crate if not checks_only else meta.get("demo_crate", crate)
if not checks_only:
    meta["ran"] = ["cargo test --workspace (with change)", "cargo test -p %s --test demo (with / without change)" % crate] + ["./check %s %s (change applied to /repo, reverted afterwards)" % (p, tier) for p in props]
json.dump(meta, open(os.path.join(out, "meta.json"), "w"), indent=1)
meta["checks_run"] = props
valid = meta["patch_applies"] and failed == 0 and fail_with and ok_without
print("VALID" if valid else "INVALID", "detected by", meta["detected_by"])
