#!/usr/bin/env python3
"""Apply a textual mutation to /repo, run checks, revert. For the builder's own
sanity runs (demonstrating detection); never leaves /repo modified.

usage: mutate.py <file> <old> <new> -- <PROP> [<PROP>...]      (tier quick)
"""
import subprocess, sys, os
args = sys.argv[1:]
sep = args.index("--")
path, old, new = args[0], args[1], args[2]
props = args[sep + 1:]
full = os.path.join("/repo", path)
src = open(full).read()
if src.count(old) != 1:
    print("MUTATE: pattern occurs %d times" % src.count(old)); sys.exit(3)
try:
    open(full, "w").write(src.replace(old, new))
    if os.environ.get("MUT_TESTS") == "1":
        r = subprocess.run("cd /repo && cargo test --workspace --no-fail-fast --offline 2>&1 | grep -E '^test result|FAILED' | grep -v ' 0 failed' | head", shell=True, capture_output=True, text=True)
        print("repo tests:", "pass" if not r.stdout.strip() else "FAIL\n" + r.stdout)
    for p in props:
        r = subprocess.run(["/verif/check", p, os.environ.get("MUT_TIER", "quick")], capture_output=True, text=True)
        lines = [l for l in (r.stdout + r.stderr).splitlines() if l.startswith(("VIOLATION", "KNOWN", "MACHINERY", "  signature", "  tokens", "  step"))]
        print("== %s exit %d" % (p, r.returncode)); print("\n".join(lines[:8]))
finally:
    subprocess.run(["git", "-C", "/repo", "checkout", "--", "."])
