//! Stand-ins for `std::sync::{Arc, Weak, RwLock, ...}` built on loom
//! primitives, so that every reference-count operation and every lock
//! operation of eyeball's sync flavour is a loom scheduling point.
//!
//! `RwLock` and its guards are loom's. `Arc`/`Weak` follow the algorithm and
//! the memory orderings of `std::sync::Arc` (strong count, weak count with the
//! implicit weak reference held by all strong ones); loom's own `Arc` has no
//! `Weak`, `weak_count` or `into_inner`.

use std::{
    cell::UnsafeCell,
    fmt,
    mem::ManuallyDrop,
    ops::Deref,
    ptr::NonNull,
};

pub use loom::sync::{RwLock, RwLockReadGuard, RwLockWriteGuard};
pub use std::sync::{LockResult, PoisonError, TryLockError, TryLockResult};

use loom::sync::atomic::{fence, AtomicUsize, Ordering::*};

struct Inner<T> {
    strong: AtomicUsize,
    weak: AtomicUsize,
    data: UnsafeCell<ManuallyDrop<T>>,
}

pub struct Arc<T> {
    ptr: NonNull<Inner<T>>,
}

pub struct Weak<T> {
    ptr: NonNull<Inner<T>>,
}

unsafe impl<T: Send + Sync> Send for Arc<T> {}
unsafe impl<T: Send + Sync> Sync for Arc<T> {}
unsafe impl<T: Send + Sync> Send for Weak<T> {}
unsafe impl<T: Send + Sync> Sync for Weak<T> {}
impl<T> Unpin for Arc<T> {}
impl<T> Unpin for Weak<T> {}

impl<T> Arc<T> {
    pub fn new(value: T) -> Self {
        let b = Box::new(Inner {
            strong: AtomicUsize::new(1),
            weak: AtomicUsize::new(1),
            data: UnsafeCell::new(ManuallyDrop::new(value)),
        });
        Arc { ptr: NonNull::from(Box::leak(b)) }
    }

    fn inner(&self) -> &Inner<T> {
        unsafe { self.ptr.as_ref() }
    }

    pub fn strong_count(this: &Self) -> usize {
        this.inner().strong.load(Relaxed)
    }

    pub fn weak_count(this: &Self) -> usize {
        let cnt = this.inner().weak.load(Relaxed);
        if cnt == usize::MAX {
            0
        } else {
            cnt - 1
        }
    }

    /// std's `is_unique`: lock the weak count, look at the strong count.
    fn is_unique(&mut self) -> bool {
        if self.inner().weak.compare_exchange(1, usize::MAX, Acquire, Relaxed).is_ok() {
            let unique = self.inner().strong.load(Acquire) == 1;
            self.inner().weak.store(1, Release);
            unique
        } else {
            false
        }
    }

    pub fn get_mut(this: &mut Self) -> Option<&mut T> {
        if this.is_unique() {
            unsafe { Some(&mut *this.inner().data.get()) }
        } else {
            None
        }
    }

    pub fn as_ptr(this: &Self) -> *const T {
        this.inner().data.get() as *const T
    }

    pub fn downgrade(this: &Self) -> Weak<T> {
        let mut cur = this.inner().weak.load(Relaxed);
        loop {
            if cur == usize::MAX {
                // the weak count is locked by `get_mut`: spin like std does
                loom::thread::yield_now();
                cur = this.inner().weak.load(Relaxed);
                continue;
            }
            match this.inner().weak.compare_exchange_weak(cur, cur + 1, Acquire, Relaxed) {
                Ok(_) => return Weak { ptr: this.ptr },
                Err(old) => {
                    cur = old;
                    loom::thread::yield_now();
                }
            }
        }
    }

    pub fn try_unwrap(this: Self) -> Result<T, Self> {
        if this.inner().strong.compare_exchange(1, 0, Relaxed, Relaxed).is_err() {
            return Err(this);
        }
        fence(Acquire);
        let this = ManuallyDrop::new(this);
        let value = unsafe { ManuallyDrop::take(&mut *this.inner().data.get()) };
        drop(Weak { ptr: this.ptr });
        Ok(value)
    }

    pub fn into_inner(this: Self) -> Option<T> {
        let this = ManuallyDrop::new(this);
        if this.inner().strong.fetch_sub(1, Release) != 1 {
            return None;
        }
        fence(Acquire);
        let value = unsafe { ManuallyDrop::take(&mut *this.inner().data.get()) };
        drop(Weak { ptr: this.ptr });
        Some(value)
    }

    pub fn ptr_eq(a: &Self, b: &Self) -> bool {
        a.ptr == b.ptr
    }
}

impl<T> Clone for Arc<T> {
    fn clone(&self) -> Self {
        self.inner().strong.fetch_add(1, Relaxed);
        Arc { ptr: self.ptr }
    }
}

impl<T> Drop for Arc<T> {
    fn drop(&mut self) {
        if self.inner().strong.fetch_sub(1, Release) != 1 {
            return;
        }
        fence(Acquire);
        unsafe { ManuallyDrop::drop(&mut *self.inner().data.get()) };
        drop(Weak { ptr: self.ptr });
    }
}

impl<T> Deref for Arc<T> {
    type Target = T;
    fn deref(&self) -> &T {
        unsafe { &*self.inner().data.get() }
    }
}

impl<T: Default> Default for Arc<T> {
    fn default() -> Self {
        Arc::new(T::default())
    }
}

impl<T: fmt::Debug> fmt::Debug for Arc<T> {
    fn fmt(&self, f: &mut fmt::Formatter<'_>) -> fmt::Result {
        fmt::Debug::fmt(&**self, f)
    }
}

impl<T> Weak<T> {
    fn inner(&self) -> &Inner<T> {
        unsafe { self.ptr.as_ref() }
    }

    pub fn upgrade(&self) -> Option<Arc<T>> {
        let mut n = self.inner().strong.load(Relaxed);
        loop {
            if n == 0 {
                return None;
            }
            match self.inner().strong.compare_exchange_weak(n, n + 1, Acquire, Relaxed) {
                Ok(_) => return Some(Arc { ptr: self.ptr }),
                Err(old) => {
                    n = old;
                    loom::thread::yield_now();
                }
            }
        }
    }

    pub fn strong_count(&self) -> usize {
        self.inner().strong.load(Relaxed)
    }

    pub fn weak_count(&self) -> usize {
        let weak = self.inner().weak.load(Acquire);
        let strong = self.inner().strong.load(Relaxed);
        if strong == 0 {
            0
        } else {
            weak - 1
        }
    }

    pub fn ptr_eq(&self, other: &Self) -> bool {
        self.ptr == other.ptr
    }
}

impl<T: PartialEq> PartialEq for Arc<T> {
    fn eq(&self, other: &Self) -> bool {
        **self == **other
    }
}

impl<T> From<T> for Arc<T> {
    fn from(v: T) -> Self {
        Arc::new(v)
    }
}

impl<T> Clone for Weak<T> {
    fn clone(&self) -> Self {
        self.inner().weak.fetch_add(1, Relaxed);
        Weak { ptr: self.ptr }
    }
}

impl<T> Drop for Weak<T> {
    fn drop(&mut self) {
        if self.inner().weak.fetch_sub(1, Release) == 1 {
            fence(Acquire);
            unsafe { drop(Box::from_raw(self.ptr.as_ptr())) };
        }
    }
}

impl<T> fmt::Debug for Weak<T> {
    fn fmt(&self, f: &mut fmt::Formatter<'_>) -> fmt::Result {
        write!(f, "(Weak)")
    }
}
