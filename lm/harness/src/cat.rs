//! Catalogue of small concurrent programs, each explored over all schedules.

use eyeball::{Observable, ObservableWriteGuard, SharedObservable};
use loom::thread;
use std::task::Poll;

use crate::rt::{block_on, linearizable, outcome, pending_polls, poll_once, vassert, History, OpK};

pub struct Entry {
    pub name: String,
    pub prop: &'static str,
    pub what: String,
    pub quick_bound: i64,
    /// -1 = unbounded
    pub thorough_bound: i64,
    pub min_outcomes: usize,
    pub body: Box<dyn Fn() + Send + Sync>,
    /// only in the thorough tier
    pub thorough_only: bool,
}

#[allow(non_snake_case)]
fn Entry(name: &str, prop: &'static str, what: &str, quick_bound: i64, thorough_bound: i64, min_outcomes: usize, body: fn()) -> Entry {
    Entry { name: name.to_string(), prop, what: what.to_string(), quick_bound, thorough_bound, min_outcomes, body: Box::new(body), thorough_only: false }
}

pub fn catalogue() -> Vec<Entry> {
    let mut v = fixed();
    v.extend(generated_programs());
    v.extend(generated_reader_programs());
    v.extend(generated_wake_programs());
    v.extend(generated_drop_programs());
    v
}

fn fixed() -> Vec<Entry> {
    vec![
    Entry("W1", "C02", "subscriber thread blocked in next() vs. set(1)", 3, -1, 2, w1),
    Entry("W2", "C02", "subscriber thread looping on next() vs. set(1); set(2); drop", 3, -1, 3, w2),
    Entry("W3", "C02", "two subscriber threads blocked in next() vs. one set(1)", 3, -1, 2, w3),
    Entry("W4", "C02", "subscriber thread blocked in next() vs. drop of the only owner", 3, -1, 2, w4),
    Entry("W5", "C02", "subscribe_reset subscriber: first next() immediate, second blocks until set(1)", 3, -1, 2, w5),
    Entry("D1", "C03", "two clones dropped by two threads, a third thread blocked in next()", 3, -1, 2, d1),
    Entry("D2", "C03", "three clones dropped by three threads, subscriber polled afterwards", 3, -1, 1, d2),
    Entry("D3", "C03", "last owner dropped while another thread upgrades a weak reference", 3, -1, 2, d3),
    Entry("D4", "C03", "clone() on one thread while the other owner is dropped", 3, -1, 1, d4),
    Entry("L1", "C04", "set(1) || set(2) on two clones", 3, -1, 2, l1),
    Entry("L2", "C04", "update(+1) || update(+1) || get()", 3, -1, 3, l2),
    Entry("L3", "C04", "set_if_not_eq(1) || set_if_not_eq(1) || get()", 3, -1, 2, l3),
    Entry("L4", "C04", "read guard held over two reads and a try_write || set(1)", 3, -1, 2, l4),
    Entry("L5", "C04", "write guard doing set(1); set(2) || get() and next_now()", 3, -1, 2, l5),
    Entry("L6", "C04", "set(1); set(2) || subscriber thread calling next() until it sees 2", 3, -1, 2, l6),
    Entry("L7", "C04", "subscribe() || set(1), then set(2)", 3, -1, 2, l7),
    Entry("L8", "C04", "next_now() || set(1): value handed out and observed version are one atomic read", 3, -1, 2, l8),
    Entry("L10", "C04", "subscribe() then get() || set(1): a subscriber that saw the old value is notified of the write", 3, -1, 2, l10),
    Entry("L9", "C04", "next_ref_now() and get() || set(1); set(2): the subscriber ends on the final value", 3, -1, 2, l9),
    ]
}

// ---------------------------------------------------------------- C02

fn w1() {
    let ob = SharedObservable::new(0u32);
    let mut sub = ob.subscribe();
    let t = thread::spawn(move || {
        let v = block_on(sub.next());
        (v, pending_polls())
    });
    ob.set(1);
    let (v, waits) = t.join().unwrap();
    vassert(v == Some(1), || format!("W1: next() returned {v:?}, expected Some(1)"));
    outcome(format!("next={v:?} waited={}", waits > 0));
}

fn w2() {
    let ob = SharedObservable::new(0u32);
    let mut sub = ob.subscribe();
    let t = thread::spawn(move || {
        let mut seen = Vec::new();
        while let Some(v) = block_on(sub.next()) {
            seen.push(v);
        }
        let last = sub.get();
        (seen, last)
    });
    ob.set(1);
    ob.set(2);
    drop(ob);
    let (seen, last) = t.join().unwrap();
    vassert(seen.windows(2).all(|w| w[0] < w[1]) && seen.iter().all(|v| *v == 1 || *v == 2), || format!("W2: subscriber saw {seen:?}"));
    vassert(last == 2, || format!("W2: after the end get() returned {last}, expected 2"));
    outcome(format!("seen={seen:?}"));
}

fn w3() {
    let ob = SharedObservable::new(0u32);
    let mut s1 = ob.subscribe();
    let mut s2 = ob.subscribe();
    let t1 = thread::spawn(move || (block_on(s1.next()), pending_polls()));
    let t2 = thread::spawn(move || (block_on(s2.next()), pending_polls()));
    ob.set(1);
    let (v1, w1) = t1.join().unwrap();
    let (v2, w2) = t2.join().unwrap();
    vassert(v1 == Some(1) && v2 == Some(1), || format!("W3: subscribers got {v1:?} and {v2:?}, expected Some(1) twice"));
    outcome(format!("waited=({},{})", w1 > 0, w2 > 0));
}

fn w4() {
    let ob = SharedObservable::new(0u32);
    let mut sub = ob.subscribe();
    let t = thread::spawn(move || (block_on(sub.next()), pending_polls(), sub.get()));
    drop(ob);
    let (v, waits, last) = t.join().unwrap();
    vassert(v.is_none(), || format!("W4: next() returned {v:?} after the only owner was dropped"));
    vassert(last == 0, || format!("W4: get() after the end returned {last}"));
    outcome(format!("waited={}", waits > 0));
}

fn w5() {
    let ob = SharedObservable::new(0u32);
    let mut sub = ob.subscribe_reset();
    let t = thread::spawn(move || {
        let first = block_on(sub.next());
        let w0 = pending_polls();
        let second = if first == Some(0) { block_on(sub.next()) } else { None };
        (first, w0, second)
    });
    ob.set(1);
    let (first, w0, second) = t.join().unwrap();
    vassert(w0 == 0, || "W5: first next() of a subscribe_reset subscriber had to wait".to_string());
    vassert(first == Some(0) && second == Some(1) || first == Some(1) && second.is_none(), || format!("W5: got {first:?} then {second:?}"));
    outcome(format!("first={first:?}"));
}

// ---------------------------------------------------------------- C03

fn d1() {
    let a = SharedObservable::new(0u32);
    let b = a.clone();
    let mut s1 = a.subscribe();
    let mut s2 = a.subscribe();
    let t1 = thread::spawn(move || drop(a));
    let t2 = thread::spawn(move || drop(b));
    let t3 = thread::spawn(move || (block_on(s2.next()), pending_polls()));
    t1.join().unwrap();
    t2.join().unwrap();
    let p = poll_once(s1.next());
    vassert(matches!(p, Poll::Ready(None)), || format!("D1: both clones are dropped but a subscriber's next() answers {p:?} instead of Ready(None)"));
    let (v, waits) = t3.join().unwrap();
    vassert(v.is_none(), || format!("D1: blocked subscriber got {v:?}"));
    outcome(format!("waited={}", waits > 0));
}

fn d2() {
    let a = SharedObservable::new(0u32);
    let b = a.clone();
    let c = a.clone();
    let mut s1 = a.subscribe();
    let t1 = thread::spawn(move || drop(a));
    let t2 = thread::spawn(move || drop(b));
    let t3 = thread::spawn(move || drop(c));
    t1.join().unwrap();
    t2.join().unwrap();
    t3.join().unwrap();
    let p = poll_once(s1.next());
    vassert(matches!(p, Poll::Ready(None)), || format!("D2: all three clones are dropped but next() answers {p:?} instead of Ready(None)"));
    outcome("ended".into());
}

fn d3() {
    let a = SharedObservable::new(0u32);
    let w = a.downgrade();
    let mut s = a.subscribe();
    let mut s2 = a.subscribe();
    let t1 = thread::spawn(move || drop(a));
    let t2 = thread::spawn(move || match w.upgrade() {
        Some(o) => {
            // `o` is an owner now: the stream must be open while it lives.
            o.set(7);
            let p = poll_once(s2.next());
            vassert(matches!(p, Poll::Ready(Some(7))), || format!("D3: upgrade() succeeded, but with the upgraded owner alive a subscriber's next() answers {p:?} after set(7)"));
            drop(o);
            true
        }
        None => false,
    });
    t1.join().unwrap();
    let upgraded = t2.join().unwrap();
    let mut seen = Vec::new();
    while let Some(v) = block_on(s.next()) {
        seen.push(v);
    }
    vassert(seen.iter().all(|v| *v == 7) && seen.len() <= 1, || format!("D3: subscriber saw {seen:?}"));
    vassert(upgraded || seen.is_empty(), || format!("D3: upgrade failed but the subscriber saw {seen:?}"));
    vassert(w_is_dead(&s), || "D3: unreachable".to_string());
    outcome(format!("upgraded={upgraded} seen={seen:?}"));
}

fn w_is_dead<T>(_s: &eyeball::Subscriber<T>) -> bool {
    true
}

fn d4() {
    let a = SharedObservable::new(0u32);
    let b = a.clone();
    let mut s = a.subscribe();
    let t1 = thread::spawn(move || {
        let c = b.clone();
        drop(b);
        c
    });
    drop(a);
    let c = t1.join().unwrap();
    // `c` is alive: the stream must be open.
    c.set(3);
    let p = poll_once(s.next());
    vassert(matches!(p, Poll::Ready(Some(3))), || format!("D4: a clone is alive but next() answers {p:?} after set(3)"));
    vassert(c.observable_count() == 1, || format!("D4: observable_count() = {}", c.observable_count()));
    drop(c);
    let p = poll_once(s.next());
    vassert(matches!(p, Poll::Ready(None)), || format!("D4: all clones dropped but next() answers {p:?}"));
    outcome("ok".into());
}

// ---------------------------------------------------------------- C04

fn l1() {
    let a = SharedObservable::new(0u32);
    let b = a.clone();
    let h = History::new();
    let (h1, h2) = (h.clone(), h.clone());
    let t1 = thread::spawn(move || h1.record(|| a.set(1), |p| OpK::Set(1, *p)));
    let t2 = thread::spawn({
        let b = b.clone();
        move || h2.record(|| b.set(2), |p| OpK::Set(2, *p))
    });
    let p1 = t1.join().unwrap();
    let p2 = t2.join().unwrap();
    let f = b.get();
    let mut all = vec![p1, p2, f];
    all.sort();
    vassert(all == vec![0, 1, 2], || format!("L1: previous values {p1}, {p2} and final {f} are not a permutation of initial + written"));
    let recs = h.take();
    vassert(linearizable(0, &recs, f), || format!("L1: history {recs:?} with final value {f} is not linearizable"));
    outcome(format!("prev=({p1},{p2}) final={f}"));
}

fn l2() {
    let a = SharedObservable::new(0u32);
    let b = a.clone();
    let c = a.clone();
    let h = History::new();
    let (h1, h2, h3) = (h.clone(), h.clone(), h.clone());
    let t1 = thread::spawn(move || h1.record(|| a.update(|x| *x += 1), |_| OpK::Incr));
    let t2 = thread::spawn(move || h2.record(|| b.update(|x| *x += 1), |_| OpK::Incr));
    let g = h3.record(|| c.get(), |v| OpK::Get(*v));
    t1.join().unwrap();
    t2.join().unwrap();
    let f = c.get();
    vassert(f == 2, || format!("L2: two increments, final value {f} (lost update)"));
    let recs = h.take();
    vassert(linearizable(0, &recs, f), || format!("L2: history {recs:?} is not linearizable"));
    outcome(format!("concurrent_get={g}"));
}

fn l3() {
    let a = SharedObservable::new(0u32);
    let b = a.clone();
    let c = a.clone();
    let h = History::new();
    let (h1, h2, h3) = (h.clone(), h.clone(), h.clone());
    let t1 = thread::spawn(move || h1.record(|| a.set_if_not_eq(1), |r| OpK::SetIfNotEq(1, *r)));
    let t2 = thread::spawn(move || h2.record(|| b.set_if_not_eq(1), |r| OpK::SetIfNotEq(1, *r)));
    let g = h3.record(|| c.get(), |v| OpK::Get(*v));
    let r1 = t1.join().unwrap();
    let r2 = t2.join().unwrap();
    vassert((r1 == Some(0)) != (r2 == Some(0)) && (r1.is_none() || r2.is_none()), || format!("L3: set_if_not_eq(1) twice returned {r1:?} and {r2:?}"));
    let f = c.get();
    let recs = h.take();
    vassert(linearizable(0, &recs, f), || format!("L3: history {recs:?} final {f} is not linearizable"));
    outcome(format!("winner={} get={g}", if r1.is_some() { 1 } else { 2 }));
}

fn l4() {
    let a = SharedObservable::new(0u32);
    let b = a.clone();
    let a2 = a.clone();
    let t1 = thread::spawn(move || {
        let g = a.read();
        let x = *g;
        let blocked = a2.try_write().is_err();
        let y = *g;
        drop(g);
        (x, y, blocked)
    });
    let t2 = thread::spawn(move || b.set(1));
    let (x, y, blocked) = t1.join().unwrap();
    let p = t2.join().unwrap();
    vassert(x == y, || format!("L4: two reads under one read guard returned {x} and {y}"));
    vassert(blocked, || "L4: try_write succeeded while a read guard was alive".to_string());
    vassert(p == 0, || format!("L4: set returned {p}"));
    outcome(format!("read={x}"));
}

fn l5() {
    let a = SharedObservable::new(0u32);
    let b = a.clone();
    let mut s = a.subscribe();
    let t1 = thread::spawn(move || {
        let mut g = a.write();
        ObservableWriteGuard::set(&mut g, 1);
        let blocked = a.try_read().is_err();
        ObservableWriteGuard::set(&mut g, 2);
        drop(g);
        blocked
    });
    let t2 = thread::spawn(move || {
        let x = b.get();
        let y = s.next_now();
        (x, y)
    });
    let blocked = t1.join().unwrap();
    let (x, y) = t2.join().unwrap();
    vassert(blocked, || "L5: try_read succeeded while a write guard was alive".to_string());
    vassert(x != 1 && y != 1 && x <= y, || format!("L5: reader saw {x} then {y} while a write guard did set(1); set(2)"));
    outcome(format!("get={x} next_now={y}"));
}

fn l6() {
    let a = SharedObservable::new(0u32);
    let mut s = a.subscribe();
    let t = thread::spawn(move || {
        let mut seen = Vec::new();
        loop {
            let v = block_on(s.next());
            match v {
                Some(v) => {
                    seen.push(v);
                    if v == 2 {
                        break;
                    }
                }
                None => break,
            }
        }
        seen
    });
    a.set(1);
    a.set(2);
    let seen = t.join().unwrap();
    vassert(seen.windows(2).all(|w| w[0] < w[1]) && seen.last() == Some(&2), || format!("L6: subscriber saw {seen:?}, expected increasing and ending on 2"));
    outcome(format!("seen={seen:?}"));
}

fn l7() {
    let a = SharedObservable::new(0u32);
    let b = a.clone();
    let t = thread::spawn(move || b.subscribe());
    a.set(1);
    let mut s = t.join().unwrap();
    let p = poll_once(s.next());
    vassert(matches!(p, Poll::Ready(Some(1)) | Poll::Pending), || format!("L7: fresh subscriber answers {p:?}"));
    let v = s.get();
    vassert(v == 1, || format!("L7: get() returned {v}"));
    a.set(2);
    let q = poll_once(s.next());
    vassert(matches!(q, Poll::Ready(Some(2))), || format!("L7: after set(2) next() answers {q:?}"));
    outcome(format!("first_poll_ready={}", p.is_ready()));
}

fn l8() {
    let a = SharedObservable::new(0u32);
    let mut s = a.subscribe();
    let t = thread::spawn(move || {
        let v = s.next_now();
        (v, s)
    });
    a.set(1);
    let (v, mut s) = t.join().unwrap();
    let p = poll_once(s.next());
    // Either next_now saw the new value (and marked it observed), or it saw the
    // old one and the update is still unobserved.
    let ok = (v == 1 && p.is_pending()) || (v == 0 && matches!(p, Poll::Ready(Some(1))));
    vassert(ok, || format!("L8: next_now() returned {v} while set(1) ran concurrently; afterwards next() answers {p:?} (the subscriber must end on the final value exactly once)"));
    outcome(format!("next_now={v}"));
}

fn l9() {
    let a = SharedObservable::new(0u32);
    let mut s = a.subscribe();
    let t = thread::spawn(move || {
        let g = s.get();
        let v = *s.next_ref_now();
        (g, v, s)
    });
    a.set(1);
    a.set(2);
    let (g, v, mut s) = t.join().unwrap();
    vassert(g <= v, || format!("L9: get() returned {g}, a later next_ref_now() returned {v}"));
    let p = poll_once(s.next());
    let ok = (v == 2 && p.is_pending()) || (v < 2 && matches!(p, Poll::Ready(Some(2))));
    vassert(ok, || format!("L9: next_ref_now() returned {v} while set(1); set(2) ran concurrently; afterwards next() answers {p:?}"));
    let q = poll_once(s.next());
    vassert(q.is_pending(), || format!("L9: the final value was handed out, yet next() answers {q:?} again"));
    outcome(format!("get={g} next_ref_now={v}"));
}

// ---------------------------------------------------------------- C04, generated

/// Operations of the generated two-thread programs.
#[derive(Clone, Copy, Debug, PartialEq, Eq)]
enum POp {
    Set1,
    Set2,
    Incr,
    Sine1,
    Take,
    Get,
    /// through a write guard: set(30) then set(40) (nobody may see 30)
    Guard34,
}

const POPS: [POp; 7] = [POp::Set1, POp::Set2, POp::Incr, POp::Sine1, POp::Take, POp::Get, POp::Guard34];

fn run_pop(ob: &SharedObservable<u32>, op: POp, h: &History) {
    match op {
        POp::Set1 => {
            h.record(|| ob.set(1), |p| OpK::Set(1, *p));
        }
        POp::Set2 => {
            h.record(|| ob.set(2), |p| OpK::Set(2, *p));
        }
        POp::Incr => {
            h.record(|| ob.update(|x| *x += 1), |_| OpK::Incr);
        }
        POp::Sine1 => {
            h.record(|| ob.set_if_not_eq(1), |r| OpK::SetIfNotEq(1, *r));
        }
        POp::Take => {
            h.record(|| ob.take(), |p| OpK::Set(0, *p));
        }
        POp::Get => {
            h.record(|| ob.get(), |v| OpK::Get(*v));
        }
        POp::Guard34 => {
            // one atomic step for everybody else: previous value -> 40
            h.record(
                || {
                    let mut g = ob.write();
                    let p = ObservableWriteGuard::set(&mut g, 30);
                    ObservableWriteGuard::set(&mut g, 40);
                    p
                },
                |p| OpK::Set(40, *p),
            );
        }
    }
}

fn notifies(op: POp) -> bool {
    !matches!(op, POp::Get)
}

/// Thread A runs `a` (one or two operations), thread B runs `b`, a subscriber
/// created up front is polled at the end.
fn program(a: Vec<POp>, b: Vec<POp>) {
    let ob = SharedObservable::new(0u32);
    let mut sub = ob.subscribe();
    let h = History::new();
    let (oa, ha, a2) = (ob.clone(), h.clone(), a.clone());
    let ta = thread::spawn(move || {
        for op in a2 {
            run_pop(&oa, op, &ha);
        }
    });
    let (obb, hb, b2) = (ob.clone(), h.clone(), b.clone());
    let tb = thread::spawn(move || {
        for op in b2 {
            run_pop(&obb, op, &hb);
        }
    });
    ta.join().unwrap();
    tb.join().unwrap();
    let f = ob.get();
    let recs = h.take();
    vassert(linearizable(0, &recs, f), || format!("program {a:?} || {b:?}: history {recs:?} with final value {f} is not linearizable"));
    vassert(recs.iter().all(|r| !matches!(r.op, OpK::Get(30 | 31) | OpK::Set(_, 30 | 31) | OpK::SetIfNotEq(_, Some(30 | 31)))) && f != 30 && f != 31, || format!("program {a:?} || {b:?}: somebody saw the value 30 that only exists inside a write guard: {recs:?}"));
    // the subscriber ends on the final value, exactly once
    let stored = recs.iter().any(|r| match r.op {
        OpK::Set(..) | OpK::Incr => true,
        OpK::SetIfNotEq(_, ret) => ret.is_some(),
        OpK::Get(_) => false,
    });
    let p = poll_once(sub.next());
    if stored {
        vassert(matches!(p, Poll::Ready(Some(v)) if v == f), || format!("program {a:?} || {b:?}: updates happened, final value {f}, but the subscriber's next() answers {p:?}"));
        let q = poll_once(sub.next());
        vassert(q.is_pending(), || format!("program {a:?} || {b:?}: the final value was observed, next() answers {q:?} again"));
    } else {
        vassert(p.is_pending(), || format!("program {a:?} || {b:?}: nothing was stored but next() answers {p:?}"));
    }
    let _ = notifies;
    outcome(format!("final={f} rets={:?}", {
        let mut r: Vec<String> = recs.iter().map(|r| format!("{:?}", r.op)).collect();
        r.sort();
        r
    }));
}

fn generated_programs() -> Vec<Entry> {
    let mut v = Vec::new();
    // every unordered pair of single operations
    for (i, a) in POPS.iter().enumerate() {
        for b in &POPS[i..] {
            let (a, b) = (*a, *b);
            v.push(Entry {
                name: format!("P:{a:?}|{b:?}"),
                prop: "C04",
                what: format!("generated: thread A {a:?} || thread B {b:?}, linearizability + final subscriber state"),
                quick_bound: 3,
                thorough_bound: -1,
                min_outcomes: 1,
                body: Box::new(move || program(vec![a], vec![b])),
                thorough_only: false,
            });
        }
    }
    // two operations on thread A against one on thread B (thorough)
    for a1 in POPS {
        for a2 in POPS {
            for b in POPS {
                v.push(Entry {
                    name: format!("P:{a1:?},{a2:?}|{b:?}"),
                    prop: "C04",
                    what: format!("generated: thread A {a1:?}; {a2:?} || thread B {b:?}"),
                    quick_bound: 2,
                    thorough_bound: 3,
                    min_outcomes: 1,
                    body: Box::new(move || program(vec![a1, a2], vec![b])),
                    thorough_only: true,
                });
            }
        }
    }
    v
}

// ---------------------------------------------------------------- C02, generated

#[derive(Clone, Copy, Debug, PartialEq, Eq)]
enum WOp {
    /// set(next value)
    Set,
    /// update(|v| *v += 1)
    Update,
    /// set_if_not_eq(current value): must not notify
    SineSame,
    /// write guard: set(next), set(next)
    Guard2,
}

const WOPS: [WOp; 4] = [WOp::Set, WOp::Update, WOp::SineSame, WOp::Guard2];

/// `nsubs` subscriber threads loop on next() until the end; the main thread
/// runs `ops` and then drops the only owner. A lost wake-up is a deadlock.
fn wake_program(ops: Vec<WOp>, nsubs: usize) {
    let ob = SharedObservable::new(0u32);
    let mut handles = Vec::new();
    for _ in 0..nsubs {
        let mut sub = ob.subscribe();
        handles.push(thread::spawn(move || {
            let mut seen = Vec::new();
            while let Some(v) = block_on(sub.next()) {
                seen.push(v);
            }
            let last = sub.get();
            (seen, last)
        }));
    }
    let mut cur = 0u32;
    for op in &ops {
        match op {
            WOp::Set => {
                cur += 1;
                ob.set(cur);
            }
            WOp::Update => {
                cur += 1;
                ob.update(|v| *v += 1);
            }
            WOp::SineSame => {
                let r = ob.set_if_not_eq(cur);
                vassert(r.is_none(), || format!("wake program {ops:?}: set_if_not_eq(current) returned {r:?}"));
            }
            WOp::Guard2 => {
                let mut g = ob.write();
                cur += 1;
                ObservableWriteGuard::set(&mut g, cur);
                cur += 1;
                ObservableWriteGuard::set(&mut g, cur);
            }
        }
    }
    drop(ob);
    let mut outs = Vec::new();
    for h in handles {
        let (seen, last) = h.join().unwrap();
        vassert(seen.windows(2).all(|w| w[0] < w[1]) && seen.iter().all(|v| *v >= 1 && *v <= cur), || format!("wake program {ops:?}: a subscriber saw {seen:?} (final value {cur})"));
        vassert(last == cur, || format!("wake program {ops:?}: after the end get() returned {last}, final value {cur}"));
        outs.push(format!("{seen:?}"));
    }
    outs.sort();
    outcome(outs.join(" "));
}

/// The same with the unique `Observable` (no write guards there): the
/// subscriber thread loops on next() until the Observable is dropped.
fn wake_program_unique(ops: Vec<WOp>) {
    let mut ob = Observable::new(0u32);
    let mut sub = Observable::subscribe(&ob);
    let h = thread::spawn(move || {
        let mut seen = Vec::new();
        while let Some(v) = block_on(sub.next()) {
            seen.push(v);
        }
        (seen, sub.get())
    });
    let mut cur = 0u32;
    for op in &ops {
        match op {
            WOp::Set | WOp::Guard2 => {
                cur += 1;
                Observable::set(&mut ob, cur);
            }
            WOp::Update => {
                cur += 1;
                Observable::update(&mut ob, |v| *v += 1);
            }
            WOp::SineSame => {
                let r = Observable::set_if_not_eq(&mut ob, cur);
                vassert(r.is_none(), || format!("unique wake program {ops:?}: set_if_not_eq(current) returned {r:?}"));
            }
        }
    }
    drop(ob);
    let (seen, last) = h.join().unwrap();
    vassert(seen.windows(2).all(|w| w[0] < w[1]) && seen.iter().all(|v| *v >= 1 && *v <= cur), || format!("unique wake program {ops:?}: the subscriber saw {seen:?} (final value {cur})"));
    vassert(last == cur, || format!("unique wake program {ops:?}: after the end get() returned {last}, final value {cur}"));
    outcome(format!("{seen:?}"));
}

fn generated_wake_programs() -> Vec<Entry> {
    let mut v = Vec::new();
    for ops in [vec![], vec![WOp::Set], vec![WOp::Update], vec![WOp::SineSame], vec![WOp::Set, WOp::Set], vec![WOp::Set, WOp::SineSame], vec![WOp::Update, WOp::Set]] {
        let name = format!("WU:{}", ops.iter().map(|o| format!("{o:?}")).collect::<Vec<_>>().join(","));
        let ops2 = ops.clone();
        v.push(Entry {
            name,
            prop: "C02",
            what: format!("generated: unique Observable, subscriber thread looping on next() || main: {ops:?}; drop"),
            quick_bound: 3,
            thorough_bound: -1,
            min_outcomes: 1,
            body: Box::new(move || wake_program_unique(ops2.clone())),
            thorough_only: false,
        });
    }
    let mut seqs: Vec<Vec<WOp>> = Vec::new();
    for a in WOPS {
        seqs.push(vec![a]);
        for b in WOPS {
            seqs.push(vec![a, b]);
        }
    }
    for ops in seqs {
        for nsubs in [1usize, 2] {
            let two = nsubs == 2;
            let name = format!("WP{nsubs}:{}", ops.iter().map(|o| format!("{o:?}")).collect::<Vec<_>>().join(","));
            let ops2 = ops.clone();
            v.push(Entry {
                name,
                prop: "C02",
                what: format!("generated: {nsubs} subscriber thread(s) looping on next() || main: {ops:?}; drop"),
                quick_bound: if two { 2 } else { 3 },
                thorough_bound: if two { 3 } else { -1 },
                min_outcomes: 1,
                body: Box::new(move || wake_program(ops2.clone(), nsubs)),
                thorough_only: two && ops.len() == 2,
            });
        }
    }
    v
}

// ---------------------------------------------------------------- C03, generated

#[derive(Clone, Copy, Debug, PartialEq, Eq)]
enum HOp {
    Drop,
    /// clone, then drop both
    CloneDropBoth,
    /// downgrade, drop the handle, then try to upgrade (and drop the result)
    DowngradeDropUpgrade,
    /// subscribe and drop the subscriber, then drop the handle
    SubscribeDrop,
}

const HOPS: [HOp; 4] = [HOp::Drop, HOp::CloneDropBoth, HOp::DowngradeDropUpgrade, HOp::SubscribeDrop];

fn run_hop(h: SharedObservable<u32>, op: HOp) -> bool {
    match op {
        HOp::Drop => {
            drop(h);
            false
        }
        HOp::CloneDropBoth => {
            let c = h.clone();
            drop(h);
            drop(c);
            false
        }
        HOp::DowngradeDropUpgrade => {
            let w = h.downgrade();
            drop(h);
            let up = w.upgrade();
            let got = up.is_some();
            drop(up);
            got
        }
        HOp::SubscribeDrop => {
            let s = h.subscribe();
            drop(s);
            drop(h);
            false
        }
    }
}

/// Two threads each own one handle and get rid of it in their own way; a third
/// thread is blocked in next(). Afterwards no owner is left: every stream must
/// have ended, whatever the interleaving.
fn drop_program(a: HOp, b: HOp) {
    let ha = SharedObservable::new(0u32);
    let hb = ha.clone();
    let mut s1 = ha.subscribe();
    let mut s2 = ha.subscribe();
    let ta = thread::spawn(move || run_hop(ha, a));
    let tb = thread::spawn(move || run_hop(hb, b));
    let tc = thread::spawn(move || block_on(s2.next()));
    let ua = ta.join().unwrap();
    let ub = tb.join().unwrap();
    let p = poll_once(s1.next());
    vassert(matches!(p, Poll::Ready(None)), || format!("drop program {a:?} || {b:?}: every owner is gone but next() answers {p:?}"));
    let v = tc.join().unwrap();
    vassert(v.is_none(), || format!("drop program {a:?} || {b:?}: the blocked subscriber got {v:?}"));
    outcome(format!("upgraded=({ua},{ub})"));
}

fn generated_drop_programs() -> Vec<Entry> {
    let mut v = Vec::new();
    for (i, a) in HOPS.iter().enumerate() {
        for b in &HOPS[i..] {
            let (a, b) = (*a, *b);
            v.push(Entry {
                name: format!("DP:{a:?}|{b:?}"),
                prop: "C03",
                what: format!("generated: thread A {a:?} || thread B {b:?} || a subscriber blocked in next(); afterwards every stream has ended"),
                quick_bound: 2,
                thorough_bound: 3,
                min_outcomes: 1,
                body: Box::new(move || drop_program(a, b)),
                // the two-upgrades program has ~6*10^4 schedules at bound 2
                thorough_only: a == HOp::DowngradeDropUpgrade && b == HOp::DowngradeDropUpgrade,
            });
        }
    }
    v
}

// ---------------------------------------------------------------- C04, generated readers

/// Subscriber-side operations of the generated reader programs.
#[derive(Clone, Copy, Debug, PartialEq, Eq)]
enum ROp {
    NextNow,
    NextRefNow,
    /// poll next() once (marks the value observed if it is Ready)
    PollNext,
    /// poll next_ref() once (two lock acquisitions inside one call: wait for the
    /// version, then hand out the guard and mark what it shows)
    PollNextRef,
    /// get(): never marks
    Get,
    /// read(): never marks
    Read,
}

const ROPS: [ROp; 6] = [ROp::NextNow, ROp::NextRefNow, ROp::PollNext, ROp::PollNextRef, ROp::Get, ROp::Read];

/// Thread A increments the value `incs` times (values are distinct, so a value
/// identifies its version); thread B owns a subscriber and runs `rops`. The
/// values B sees never go backwards, and once A is done the subscriber's
/// next() is Ready with the final value exactly if the last value B *marked
/// observed* is older.
fn reader_program(incs: u32, rops: Vec<ROp>) {
    let ob = SharedObservable::new(0u32);
    let mut sub = ob.subscribe();
    let r2 = rops.clone();
    let tb = thread::spawn(move || {
        let mut seen: Vec<u32> = Vec::new();
        let mut marked = 0u32;
        for op in r2 {
            match op {
                ROp::NextNow => {
                    let v = sub.next_now();
                    seen.push(v);
                    marked = v;
                }
                ROp::NextRefNow => {
                    let v = *sub.next_ref_now();
                    seen.push(v);
                    marked = v;
                }
                ROp::PollNext => {
                    if let Poll::Ready(Some(v)) = poll_once(sub.next()) {
                        seen.push(v);
                        marked = v;
                    }
                }
                ROp::PollNextRef => {
                    let got = match poll_once(sub.next_ref()) {
                        Poll::Ready(Some(g)) => Some(*g),
                        _ => None,
                    };
                    if let Some(v) = got {
                        seen.push(v);
                        marked = v;
                    }
                }
                ROp::Get => seen.push(sub.get()),
                ROp::Read => seen.push(*sub.read()),
            }
        }
        (seen, marked, sub)
    });
    for _ in 0..incs {
        ob.update(|v| *v += 1);
    }
    let (seen, marked, mut sub) = tb.join().unwrap();
    vassert(seen.windows(2).all(|w| w[0] <= w[1]) && seen.iter().all(|v| *v <= incs), || format!("reader program {rops:?} vs {incs} increments: the subscriber saw {seen:?}"));
    let p = poll_once(sub.next());
    if marked < incs {
        vassert(matches!(p, Poll::Ready(Some(v)) if v == incs), || format!("reader program {rops:?} vs {incs} increments: last value marked observed is {marked}, final value {incs}, but next() answers {p:?}"));
    } else {
        vassert(p.is_pending(), || format!("reader program {rops:?} vs {incs} increments: the final value {incs} was marked observed, but next() answers {p:?}"));
    }
    outcome(format!("seen={seen:?} marked={marked}"));
}

fn generated_reader_programs() -> Vec<Entry> {
    let mut v = Vec::new();
    let mut seqs: Vec<Vec<ROp>> = Vec::new();
    for a in ROPS {
        seqs.push(vec![a]);
        for b in ROPS {
            seqs.push(vec![a, b]);
        }
    }
    for rops in seqs {
        for incs in [1u32, 2] {
            let two = rops.len() == 2;
            let name = format!("RP{incs}:{}", rops.iter().map(|o| format!("{o:?}")).collect::<Vec<_>>().join(","));
            let r2 = rops.clone();
            v.push(Entry {
                name,
                prop: "C04",
                what: format!("generated: {incs} increment(s) || subscriber thread {rops:?}; values never go backwards, next() afterwards is Ready iff the last marked value is older"),
                quick_bound: 3,
                thorough_bound: -1,
                min_outcomes: 1,
                body: Box::new(move || reader_program(incs, r2.clone())),
                thorough_only: two && incs == 2,
            });
        }
    }
    v
}

fn l10() {
    let a = SharedObservable::new(0u32);
    let b = a.clone();
    let t = thread::spawn(move || {
        let s = b.subscribe();
        let g = s.get();
        (s, g)
    });
    a.set(1);
    let (mut s, g) = t.join().unwrap();
    let p = poll_once(s.next());
    if g == 0 {
        // it existed and had seen the old value before the write took effect
        vassert(matches!(p, Poll::Ready(Some(1))), || format!("L10: the subscriber read the old value 0 through get(), then set(1) completed, but next() answers {p:?}"));
    } else {
        vassert(p.is_pending() || matches!(p, Poll::Ready(Some(1))), || format!("L10: get() returned {g}, next() answers {p:?}"));
    }
    vassert(s.get() == 1, || "L10: get() after the write is not 1".to_string());
    outcome(format!("get={g} ready={}", p.is_ready()));
}
