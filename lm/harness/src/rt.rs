//! Runtime pieces of the loom harnesses: child runner, `block_on`, outcome
//! recording, history recording and the brute-force linearizability checker.
//! Bookkeeping deliberately uses `std` types: it adds no scheduling points.

use std::{
    collections::BTreeMap,
    future::Future,
    pin::pin,
    sync::{
        atomic::{AtomicU64, Ordering},
        Arc, Mutex,
    },
    task::{Context, Poll, Wake, Waker},
};

use crate::cat;

static ITERS: AtomicU64 = AtomicU64::new(0);
static CLOCK: AtomicU64 = AtomicU64::new(0);
static OUTCOMES: Mutex<BTreeMap<String, u64>> = Mutex::new(BTreeMap::new());

thread_local! {
    static PENDING_POLLS: std::cell::Cell<u32> = const { std::cell::Cell::new(0) };
}

pub fn outcome(s: String) {
    *OUTCOMES.lock().unwrap().entry(s).or_insert(0) += 1;
}

/// Harness assertion: recognisable on stderr whatever loom does afterwards.
#[track_caller]
pub fn vassert(cond: bool, msg: impl FnOnce() -> String) {
    if !cond {
        let m = msg();
        eprintln!("VERIF-ASSERT: {m}");
        panic!("VERIF-ASSERT: {m}");
    }
}

struct NotifyWaker(loom::sync::Notify);

impl Wake for NotifyWaker {
    fn wake(self: Arc<Self>) {
        self.0.notify();
    }
    fn wake_by_ref(self: &Arc<Self>) {
        self.0.notify();
    }
}

/// Number of `Pending` answers the last `block_on` of this thread went through.
pub fn pending_polls() -> u32 {
    PENDING_POLLS.with(|p| p.get())
}

/// Minimal executor on loom's `Notify`: a lost wake-up leaves the thread
/// blocked for ever, which loom reports as a deadlock.
pub fn block_on<F: Future>(f: F) -> F::Output {
    let mut f = pin!(f);
    let nw = Arc::new(NotifyWaker(loom::sync::Notify::new()));
    let waker = Waker::from(nw.clone());
    let mut cx = Context::from_waker(&waker);
    let mut pend = 0;
    loop {
        match f.as_mut().poll(&mut cx) {
            Poll::Ready(v) => {
                PENDING_POLLS.with(|p| p.set(pend));
                return v;
            }
            Poll::Pending => {
                pend += 1;
                nw.0.wait();
            }
        }
    }
}

/// Poll a future exactly once with a waker nobody listens to.
pub fn poll_once<F: Future>(f: F) -> Poll<F::Output> {
    let mut f = pin!(f);
    let mut cx = Context::from_waker(Waker::noop());
    f.as_mut().poll(&mut cx)
}

// ---------------------------------------------------------------------------
// Histories

#[derive(Clone, Copy, Debug, PartialEq, Eq)]
pub enum OpK {
    /// set(v) -> previous
    Set(u32, u32),
    /// get() -> value
    Get(u32),
    /// update(|x| *x += 1)
    Incr,
    /// set_if_not_eq(v) -> Option<previous>
    SetIfNotEq(u32, Option<u32>),
}

#[derive(Clone, Copy, Debug)]
pub struct Rec {
    pub inv: u64,
    pub res: u64,
    pub op: OpK,
}

#[derive(Clone, Default)]
pub struct History(Arc<Mutex<Vec<Rec>>>);

impl History {
    pub fn new() -> Self {
        History::default()
    }
    /// Run `f` and record it with invocation/response stamps.
    pub fn record<R>(&self, f: impl FnOnce() -> R, mk: impl FnOnce(&R) -> OpK) -> R {
        let inv = CLOCK.fetch_add(1, Ordering::SeqCst);
        let r = f();
        let res = CLOCK.fetch_add(1, Ordering::SeqCst);
        self.0.lock().unwrap().push(Rec { inv, res, op: mk(&r) });
        r
    }
    pub fn take(&self) -> Vec<Rec> {
        std::mem::take(&mut *self.0.lock().unwrap())
    }
}

fn apply(state: u32, op: OpK) -> Option<u32> {
    match op {
        OpK::Set(v, prev) => (prev == state).then_some(v),
        OpK::Get(v) => (v == state).then_some(state),
        OpK::Incr => Some(state + 1),
        OpK::SetIfNotEq(v, ret) => {
            if state != v {
                (ret == Some(state)).then_some(v)
            } else {
                ret.is_none().then_some(state)
            }
        }
    }
}

/// Is there a total order of `recs`, consistent with real time, in which every
/// operation returns what the sequential register returns, ending in
/// `final_val`? Brute force; histories have at most 6 operations.
pub fn linearizable(init: u32, recs: &[Rec], final_val: u32) -> bool {
    fn go(state: u32, recs: &[Rec], done: &mut Vec<bool>, left: usize, final_val: u32) -> bool {
        if left == 0 {
            return state == final_val;
        }
        // an operation may go next only if no other pending operation
        // responded before it was invoked
        let min_res = recs.iter().enumerate().filter(|(i, _)| !done[*i]).map(|(_, r)| r.res).min().unwrap();
        for i in 0..recs.len() {
            if done[i] || recs[i].inv > min_res {
                continue;
            }
            if let Some(next) = apply(state, recs[i].op) {
                done[i] = true;
                if go(next, recs, done, left - 1, final_val) {
                    done[i] = false;
                    return true;
                }
                done[i] = false;
            }
        }
        false
    }
    let mut done = vec![false; recs.len()];
    go(init, recs, &mut done, recs.len(), final_val)
}

// ---------------------------------------------------------------------------

pub fn child(name: &str, bound: i64) {
    let cat = cat::catalogue();
    let Some(e) = cat.into_iter().find(|e| e.name == name) else {
        eprintln!("unknown harness {name}");
        std::process::exit(2);
    };
    let timeout: u64 = std::env::var("VERIF_LOOM_TIMEOUT_S").ok().and_then(|s| s.parse().ok()).unwrap_or(600);
    std::thread::spawn(move || {
        std::thread::sleep(std::time::Duration::from_secs(timeout));
        eprintln!("VERIF-TIMEOUT: harness did not finish within {timeout}s ({} schedules so far)", ITERS.load(Ordering::SeqCst));
        std::process::exit(3);
    });
    let mut b = loom::model::Builder::new();
    b.preemption_bound = if bound < 0 { None } else { Some(bound as usize) };
    let body = e.body;
    b.check(move || {
        ITERS.fetch_add(1, Ordering::SeqCst);
        (body)();
    });
    let outcomes = OUTCOMES.lock().unwrap().clone();
    let v = serde_json::json!({"harness": name, "schedules": ITERS.load(Ordering::SeqCst), "outcomes": outcomes, "complete": true});
    println!("LOOM-RESULT {v}");
}
