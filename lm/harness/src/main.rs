//! Engine B: exhaustive exploration of thread interleavings of the real
//! eyeball sync-flavour code under loom (see /verif/DESIGN.md section 2.2).
//!
//! Parent mode (`--prop Cxx --tier T`): runs every catalogue entry of the
//! property in a child process (loom failures abort the process), classifies
//! the outcome and writes the evidence part.
//! Child mode (`--child NAME --bound N`): runs one harness under loom.

mod cat;
mod rt;

use std::{
    collections::BTreeMap,
    process::Command,
    time::Instant,
};

use serde_json::{json, Value};

fn verif() -> String {
    std::env::var("VERIF_DIR").unwrap_or_else(|_| "/verif".to_string())
}

/// Harness names contain ':' '|' ',' - keep file names shell-friendly.
fn safe(name: &str) -> String {
    name.chars().map(|c| if c.is_ascii_alphanumeric() { c } else { '_' }).collect()
}

fn arg(args: &[String], k: &str) -> Option<String> {
    args.iter().position(|a| a == k).and_then(|i| args.get(i + 1).cloned())
}

fn main() {
    let args: Vec<String> = std::env::args().collect();
    if let Some(name) = arg(&args, "--child") {
        let bound: i64 = arg(&args, "--bound").and_then(|b| b.parse().ok()).unwrap_or(2);
        rt::child(&name, bound);
        return;
    }
    if let Some(path) = arg(&args, "--replay") {
        std::process::exit(replay(&path));
    }
    let prop = arg(&args, "--prop").expect("--prop");
    let tier = arg(&args, "--tier").unwrap_or_else(|| "quick".into());
    std::process::exit(parent(&prop, &tier));
}

struct ChildOut {
    status: Option<i32>,
    stdout: String,
    stderr: String,
    wall: f64,
}

fn run_child(name: &str, bound: i64, checkpoint: Option<&str>, timeout_s: u64) -> ChildOut {
    let exe = std::env::current_exe().unwrap();
    let mut cmd = Command::new(exe);
    cmd.arg("--child").arg(name).arg("--bound").arg(bound.to_string());
    cmd.env("LOOM_MAX_BRANCHES", "100000");
    if let Some(cp) = checkpoint {
        cmd.env("LOOM_CHECKPOINT_FILE", cp).env("LOOM_CHECKPOINT_INTERVAL", "1");
    }
    cmd.env("VERIF_LOOM_TIMEOUT_S", timeout_s.to_string());
    let t0 = Instant::now();
    let out = cmd.output().expect("cannot spawn child");
    ChildOut {
        status: out.status.code(),
        stdout: String::from_utf8_lossy(&out.stdout).into_owned(),
        stderr: String::from_utf8_lossy(&out.stderr).into_owned(),
        wall: t0.elapsed().as_secs_f64(),
    }
}

enum Verdict {
    Pass { schedules: u64, outcomes: BTreeMap<String, u64>, complete: bool },
    Violation(String),
    Machinery(String),
}

fn classify(o: &ChildOut) -> Verdict {
    if let Some(line) = o.stdout.lines().find(|l| l.starts_with("LOOM-RESULT ")) {
        if o.status == Some(0) {
            let v: Value = serde_json::from_str(&line["LOOM-RESULT ".len()..]).unwrap_or(json!({}));
            let schedules = v["schedules"].as_u64().unwrap_or(0);
            let complete = v["complete"].as_bool().unwrap_or(false);
            let mut outcomes = BTreeMap::new();
            if let Some(m) = v["outcomes"].as_object() {
                for (k, c) in m {
                    outcomes.insert(k.clone(), c.as_u64().unwrap_or(0));
                }
            }
            return Verdict::Pass { schedules, outcomes, complete };
        }
    }
    if let Some(l) = o.stderr.lines().find(|l| l.contains("VERIF-ASSERT:")) {
        let i = l.find("VERIF-ASSERT:").unwrap();
        return Verdict::Violation(l[i + "VERIF-ASSERT:".len()..].trim().to_string());
    }
    if let Some(l) = o.stderr.lines().find(|l| l.contains("deadlock; threads =")) {
        return Verdict::Violation(format!("a thread stays blocked although its wake-up condition holds (lost wake-up): loom reports {}", l.trim()));
    }
    if let Some(l) = o.stderr.lines().find(|l| l.contains("VERIF-TIMEOUT")) {
        return Verdict::Machinery(l.trim().to_string());
    }
    let tail: Vec<&str> = o.stderr.lines().rev().take(12).collect();
    Verdict::Machinery(format!("child ended with status {:?}; stderr tail: {}", o.status, tail.into_iter().rev().collect::<Vec<_>>().join(" | ")))
}

fn parent(prop: &str, tier: &str) -> i32 {
    let t0 = Instant::now();
    let quick = tier == "quick";
    let all = cat::catalogue();
    let entries: Vec<&cat::Entry> = all.iter().filter(|e| e.prop == prop && !(quick && e.thorough_only)).collect();
    if entries.is_empty() {
        eprintln!("MACHINERY: no loom harness for {prop}");
        return 2;
    }
    let mut per = Vec::new();
    let mut total_sched = 0u64;
    let mut total_outcomes = 0u64;
    let mut violations = Vec::new();
    let mut machinery = Vec::new();
    let mut samples = Vec::new();
    let _ = std::fs::create_dir_all(format!("{}/replays/{prop}", verif()));
    // All catalogue entries run concurrently, one child process each.
    let outs: Vec<ChildOut> = std::thread::scope(|s| {
        let hs: Vec<_> = entries
            .iter()
            .map(|e| {
                let bound = if quick { e.quick_bound } else { e.thorough_bound };
                let timeout = if quick { 120 } else { 3600 };
                let cp = format!("{}/replays/{prop}/{prop}-loom-{}.checkpoint.json", verif(), safe(&e.name));
                let _ = std::fs::remove_file(&cp);
                let name = e.name.as_str();
                s.spawn(move || run_child(name, bound, Some(&cp), timeout))
            })
            .collect();
        hs.into_iter().map(|h| h.join().unwrap()).collect()
    });
    for (e, o) in entries.iter().zip(outs) {
        let bound = if quick { e.quick_bound } else { e.thorough_bound };
        let timeout = if quick { 120 } else { 3600 };
        let cp = format!("{}/replays/{prop}/{prop}-loom-{}.checkpoint.json", verif(), safe(&e.name));
        match classify(&o) {
            Verdict::Pass { schedules, outcomes, complete } => {
                let _ = std::fs::remove_file(&cp);
                total_sched += schedules;
                total_outcomes += outcomes.len() as u64;
                if outcomes.len() < e.min_outcomes {
                    machinery.push(format!("{}: only {} distinct outcome(s) over {} schedules (expected >= {}): the threads never collided", e.name, outcomes.len(), schedules, e.min_outcomes));
                }
                if !complete {
                    machinery.push(format!("{}: exploration did not complete", e.name));
                }
                samples.push(json!({"harness": e.name, "what": e.what, "outcomes": outcomes}));
                per.push(json!({"harness": e.name, "what": e.what, "preemption_bound": if bound < 0 { json!("unbounded") } else { json!(bound) }, "schedules": schedules, "distinct_outcomes": outcomes.len(), "outcomes": outcomes, "wall_s": o.wall}));
                eprintln!("[lm] {prop} {}: {} schedules, {} distinct outcomes, bound {}, {:.1}s", e.name, schedules, outcomes.len(), bound, o.wall);
            }
            Verdict::Violation(msg) => {
                // Replay the failing schedule twice from the checkpoint; the
                // same schedule must fail the same way.
                let mut same = true;
                let mut msgs = Vec::new();
                for _ in 0..2 {
                    let r = run_child(&e.name, bound, Some(&cp), timeout);
                    match classify(&r) {
                        Verdict::Violation(m) => msgs.push(m),
                        _ => same = false,
                    }
                }
                if !same || msgs.iter().any(|m| m != &msg) {
                    machinery.push(format!("{}: failure did not replay deterministically ({} vs {:?})", e.name, msg, msgs));
                    continue;
                }
                let rp = format!("{}/replays/{prop}/{prop}-loom-{}.json", verif(), safe(&e.name));
                let rf = json!({"engine": "loom", "bin": "lm", "property": prop, "tier": tier, "harness": e.name, "what": e.what, "preemption_bound": bound, "checkpoint": cp, "failure": msg,
                    "replay_cmd": format!("./check replay {rp}")});
                std::fs::write(&rp, serde_json::to_string_pretty(&rf).unwrap()).unwrap();
                println!("VIOLATION property={prop} replay={rp}");
                eprintln!("  harness {} ({}): {}", e.name, e.what, msg);
                per.push(json!({"harness": e.name, "what": e.what, "violation": msg}));
                violations.push(msg);
            }
            Verdict::Machinery(m) => {
                machinery.push(format!("{}: {}", e.name, m));
            }
        }
    }
    let part = json!({
        "property_id": prop, "tier": tier, "seed": std::env::var("VERIF_SEED").ok().and_then(|s| s.parse::<i64>().ok()).unwrap_or(0),
        "level": "model_checking",
        "coverage": {
            "engine": "loom",
            "evaluations": total_sched,
            "distinct_nontrivial": total_outcomes,
            "rule": "every interleaving (loom DPOR, up to the preemption bound listed per harness) of each catalogue program on the real SharedObservable/Subscriber code with lock and reference-count operations as scheduling points; distinct_nontrivial = number of distinct observable outcomes over all schedules, summed over harnesses (a harness with fewer outcomes than expected is a machinery failure)",
            "samples": samples,
            "states": total_outcomes.max(1),
            "transitions": total_sched.max(1),
            "traces_validated_against_impl": total_sched,
            "schedules": total_sched,
            "exhaustive": violations.is_empty() && machinery.is_empty(),
            "cap_hit": false,
            "harnesses": per,
            "machinery_problems": machinery,
            "states_note": "states = distinct observable outcomes; transitions = complete schedules executed (loom does not expose its internal state/branch counts)",
        },
        "assumptions": [
            "loom's RwLock has no writer preference and no poisoning: loom admits more schedules than the futex lock",
            "Arc/Weak are a re-implementation of std's algorithm on loom atomics (verif_sync), readlock is the registry source with std::sync replaced mechanically",
            "sync flavour only; tokio's primitives are not under loom",
        ],
        "wall_s": t0.elapsed().as_secs_f64(),
        "violations": violations.len(),
    });
    let dir = format!("{}/evidence/parts", verif());
    let _ = std::fs::create_dir_all(&dir);
    std::fs::write(format!("{dir}/{prop}.lm.json"), serde_json::to_string_pretty(&part).unwrap()).unwrap();
    if !violations.is_empty() {
        return 1;
    }
    if !machinery.is_empty() {
        for m in &machinery {
            eprintln!("MACHINERY: {m}");
        }
        return 2;
    }
    0
}

fn replay(path: &str) -> i32 {
    let v: Value = serde_json::from_str(&std::fs::read_to_string(path).expect("replay file")).expect("json");
    let name = v["harness"].as_str().unwrap();
    let bound = v["preemption_bound"].as_i64().unwrap_or(2);
    let cp = v["checkpoint"].as_str().unwrap();
    let mut res = Vec::new();
    for _ in 0..2 {
        let o = run_child(name, bound, Some(cp), 600);
        res.push(match classify(&o) {
            Verdict::Violation(m) => Some(m),
            Verdict::Pass { .. } => None,
            Verdict::Machinery(m) => {
                eprintln!("MACHINERY: {m}");
                return 2;
            }
        });
    }
    if res[0] != res[1] {
        eprintln!("MACHINERY: replay is not deterministic: {:?}", res);
        return 2;
    }
    match &res[0] {
        Some(m) => {
            println!("VIOLATION property={} replay=(replayed) {}", v["property"].as_str().unwrap_or("?"), m);
            1
        }
        None => {
            println!("replay: the recorded schedule (and every schedule after it) passes on the current tree");
            0
        }
    }
}
