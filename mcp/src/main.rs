//! Harness `pause` (C06, C05 second half): sender/receiver interleavings
//! *inside* one poll of a vector subscriber stream. The library is built with
//! `--cfg eyeball_verif`, which adds pause points before every `try_recv` of
//! the batched stream's drain loop and of `handle_lag`; the harness installs a
//! callback that performs the sender's operations there. The explorer
//! enumerates which operations run at which pause point of which poll.

#[path = "../../mc/src/el.rs"]
#[allow(dead_code)]
mod el;
#[path = "../../mc/src/wk.rs"]
#[allow(dead_code)]
mod wk;
#[path = "../../mc/src/rep.rs"]
#[allow(dead_code)]
mod rep;
#[path = "../../mc/src/explore.rs"]
#[allow(dead_code)]
mod explore;
#[path = "../../mc/src/ev.rs"]
#[allow(dead_code)]
mod ev;

use std::{
    cell::RefCell,
    pin::Pin,
    rc::Rc,
    sync::Arc,
    task::{Context, Poll},
    time::Instant,
};

use eyeball_im::{verif_hooks, ObservableVector, VectorDiff, VectorSubscriberBatchedStream, VectorSubscriberStream};
use futures_core::Stream;
use imbl::Vector;
use serde_json::json;

use el::{El, Kid, Plain};
use ev::Finish;
use explore::{Acc, Harness, Stats, Sweep, Violation};
use rep::{apply_checked, diff_kind, kids, kids_im};
use wk::{flag_waker, Flag};

#[derive(Clone, Copy, Debug, PartialEq, Eq, Hash)]
enum Op {
    PushBack,
    PopFront,
    Set0,
    Clear,
    /// transaction: push_back; push_back; commit
    Txn2,
}

const OPS: [Op; 5] = [Op::PushBack, Op::PopFront, Op::Set0, Op::Clear, Op::Txn2];

#[derive(Clone, Copy, Debug, PartialEq, Eq, Hash)]
enum Tok {
    /// the sender runs between two polls
    Op(Op),
    /// the sender will run this at pause point number `p` of the next poll
    /// (or right after that poll if it has fewer pause points)
    AtPause(u8, Op),
    Poll(u8),
    Drain(u8),
}

#[derive(Clone, Debug)]
struct Cfg {
    capacity: usize,
    init_len: u8,
    /// false = plain stream, true = batched stream
    subs: Vec<bool>,
    max_pause: u8,
    max_queued: u8,
    /// epilogue: drop the vector (without draining first) and poll every
    /// stream to its end (C08)
    epilogue_drop: bool,
    prop: &'static str,
}

#[derive(Clone, Hash, Debug)]
struct Model {
    vec: Vec<Kid>,
    next_id: u16,
    queued: Vec<(u8, Op)>,
}

fn op_effect(op: Op, v: &mut Vec<Kid>, next_id: &mut u16) {
    let mut fresh = || {
        let id = *next_id;
        *next_id += 1;
        (0u8, id)
    };
    match op {
        Op::PushBack => {
            let e = fresh();
            v.push(e)
        }
        Op::PopFront => {
            if !v.is_empty() {
                v.remove(0);
            }
        }
        Op::Set0 => {
            let e = fresh();
            if !v.is_empty() {
                v[0] = e;
            }
        }
        Op::Clear => v.clear(),
        Op::Txn2 => {
            let a = fresh();
            let b = fresh();
            v.push(a);
            v.push(b);
        }
    }
}

fn op_real(ob: &mut ObservableVector<Plain>, op: Op, next_id: &mut u16) {
    let mut fresh = || {
        let id = *next_id;
        *next_id += 1;
        Plain::mk(0, id)
    };
    match op {
        Op::PushBack => ob.push_back(fresh()),
        Op::PopFront => {
            ob.pop_front();
        }
        Op::Set0 => {
            let e = fresh();
            if !ob.is_empty() {
                ob.set(0, e);
            }
        }
        Op::Clear => ob.clear(),
        Op::Txn2 => {
            let a = fresh();
            let b = fresh();
            let mut t = ob.transaction();
            t.push_back(a);
            t.push_back(b);
            t.commit();
        }
    }
}

struct PauseH;

impl Harness for PauseH {
    type Cfg = Cfg;
    type Tok = Tok;
    type Model = Model;

    fn init(&self, cfg: &Cfg) -> Model {
        let mut next_id = 0;
        let mut vec = Vec::new();
        for _ in 0..cfg.init_len {
            op_effect(Op::PushBack, &mut vec, &mut next_id);
        }
        Model { vec, next_id, queued: vec![] }
    }

    fn enabled(&self, cfg: &Cfg, m: &Model, out: &mut Vec<Tok>) {
        if m.queued.is_empty() {
            for op in OPS {
                if m.vec.len() < 5 || !matches!(op, Op::PushBack | Op::Txn2) {
                    out.push(Tok::Op(op));
                }
            }
        }
        if (m.queued.len() as u8) < cfg.max_queued && m.vec.len() < 5 {
            let from = m.queued.last().map(|q| q.0).unwrap_or(0);
            for p in from..=cfg.max_pause {
                for op in OPS {
                    out.push(Tok::AtPause(p, op));
                }
            }
        }
        for i in 0..cfg.subs.len() as u8 {
            out.push(Tok::Poll(i));
            if m.queued.is_empty() {
                out.push(Tok::Drain(i));
            }
        }
    }

    fn step(&self, _cfg: &Cfg, m: &mut Model, t: &Tok) {
        match *t {
            Tok::Op(op) => op_effect(op, &mut m.vec, &mut m.next_id),
            Tok::AtPause(p, op) => m.queued.push((p, op)),
            Tok::Poll(_) => {
                // whatever was queued has run by the end of the poll
                for (_, op) in std::mem::take(&mut m.queued) {
                    op_effect(op, &mut m.vec, &mut m.next_id);
                }
            }
            Tok::Drain(_) => {}
        }
    }

    fn panic_prop(&self, cfg: &Cfg) -> &'static str {
        cfg.prop
    }

    fn run(&self, cfg: &Cfg, toks: &[Tok], st: &mut Stats) -> Result<(), Violation> {
        let r = World::new(cfg).exec(toks, st);
        verif_hooks::set_pause_hook(None);
        r
    }
}

enum StreamR {
    Plain(VectorSubscriberStream<Plain>),
    Batched(VectorSubscriberBatchedStream<Plain>),
}

struct SubR {
    batched: bool,
    stream: StreamR,
    replica: Vec<Plain>,
    last_pending: Option<Arc<Flag>>,
}

/// State the pause callback shares with the harness.
struct Sender {
    ob: Option<ObservableVector<Plain>>,
    vec: Vec<Kid>,
    next_id: u16,
    queued: Vec<(u8, Op)>,
    pause_no: u8,
    ran_in_pause: u64,
}

impl Sender {
    fn run_op(&mut self, op: Op) {
        let mut id = self.next_id;
        op_real(self.ob.as_mut().expect("vector alive"), op, &mut id);
        op_effect(op, &mut self.vec, &mut self.next_id);
        debug_assert_eq!(id, self.next_id);
    }
}

struct World {
    ended: Vec<bool>,
    cfg: Cfg,
    sender: Rc<RefCell<Sender>>,
    subs: Vec<SubR>,
    step: usize,
}

fn viol(prop: &'static str, step: usize, sig: impl Into<String>, detail: impl Into<String>) -> Violation {
    Violation { prop, step, sig: sig.into(), detail: detail.into() }
}

impl World {
    fn new(cfg: &Cfg) -> Self {
        let mut ob = ObservableVector::<Plain>::with_capacity(cfg.capacity);
        let mut next_id = 0u16;
        let mut vec = Vec::new();
        if cfg.init_len > 0 {
            let v: Vector<Plain> = (0..cfg.init_len).map(|i| Plain::mk(0, i as u16)).collect();
            ob.append(v);
        }
        for _ in 0..cfg.init_len {
            op_effect(Op::PushBack, &mut vec, &mut next_id);
        }
        let mut subs = Vec::new();
        for &batched in &cfg.subs {
            let sub = ob.subscribe();
            let (values, stream) = if batched {
                let (v, s) = sub.into_values_and_batched_stream();
                (v, StreamR::Batched(s))
            } else {
                let (v, s) = sub.into_values_and_stream();
                (v, StreamR::Plain(s))
            };
            subs.push(SubR { batched, stream, replica: values.into_iter().collect(), last_pending: None });
        }
        let sender = Rc::new(RefCell::new(Sender { ob: Some(ob), vec, next_id, queued: vec![], pause_no: 0, ran_in_pause: 0 }));
        let s2 = sender.clone();
        verif_hooks::set_pause_hook(Some(Box::new(move |_point| {
            let mut s = s2.borrow_mut();
            let p = s.pause_no;
            s.pause_no += 1;
            while let Some(&(q, op)) = s.queued.first() {
                if q <= p {
                    s.queued.remove(0);
                    s.run_op(op);
                    s.ran_in_pause += 1;
                } else {
                    break;
                }
            }
        })));
        World { ended: vec![false; cfg.subs.len()], cfg: cfg.clone(), sender, subs, step: 0 }
    }

    /// One poll; queued sender operations run at its pause points, the rest
    /// right after it.
    fn poll(&mut self, i: usize, st: &mut Stats) -> Result<bool, Violation> {
        let prop = self.cfg.prop;
        let step = self.step;
        self.sender.borrow_mut().pause_no = 0;
        let ran_before = self.sender.borrow().ran_in_pause;
        let (flag, waker) = flag_waker();
        let mut cx = Context::from_waker(&waker);
        let s = &mut self.subs[i];
        let res: Poll<Option<Vec<VectorDiff<Plain>>>> = match &mut s.stream {
            StreamR::Plain(p) => Pin::new(p).poll_next(&mut cx).map(|o| o.map(|d| vec![d])),
            StreamR::Batched(b) => Pin::new(b).poll_next(&mut cx),
        };
        st.transitions += 1;
        let ran_inside = self.sender.borrow().ran_in_pause - ran_before;
        if ran_inside > 0 {
            st.mark("sender_ran_inside_a_poll");
        }
        // what did not fit into a pause point runs now
        {
            let mut snd = self.sender.borrow_mut();
            for (_, op) in std::mem::take(&mut snd.queued) {
                snd.run_op(op);
            }
        }
        let contents = self.sender.borrow().vec.clone();
        let s = &mut self.subs[i];
        if let Poll::Ready(_) = &res {
            if let Some(f) = s.last_pending.take() {
                if !f.woken() {
                    return Err(viol("C14", step, "ready-without-wake", format!("sub{i}: Ready although the waker of its previous Pending poll was never woken")));
                }
            }
        }
        match res {
            Poll::Pending => {
                if self.sender.borrow().ob.is_none() {
                    return Err(viol("C08", step, "pending-after-drop", format!("sub{i}: Pending although the vector was dropped")));
                }
                if ran_inside == 0 {
                    // nothing happened during the poll: the subscriber must be up to date
                    // with everything before it (operations queued for after the poll
                    // are not in `contents_before`)
                }
                s.last_pending = Some(flag);
                Ok(false)
            }
            Poll::Ready(None) => {
                if self.sender.borrow().ob.is_some() {
                    return Err(viol("C08", step, "ended-while-alive", format!("sub{i}: stream ended while the vector is alive")));
                }
                let rep = kids(&s.replica);
                if rep != contents {
                    return Err(viol(
                        "C08",
                        step,
                        format!("ended-before-final-state/{}", if s.batched { "batched" } else { "plain" }),
                        format!("sub{i}: stream ended with replica {:?} but the final contents were {:?}", rep, contents),
                    ));
                }
                st.mark("ended_on_final_state");
                self.ended[i] = true;
                Ok(false)
            }
            Poll::Ready(Some(batch)) => {
                if batch.is_empty() {
                    return Err(viol(prop, step, "empty-batch", format!("sub{i}: empty batch")));
                }
                for d in &batch {
                    if let VectorDiff::Reset { .. } = d {
                        st.mark("reset_delivered");
                        if ran_inside > 0 {
                            st.mark("lag_caused_by_sender_inside_the_poll");
                        }
                    }
                    if let Err(e) = apply_checked(d, &mut s.replica) {
                        return Err(viol(prop, step, format!("inapplicable/{}", diff_kind(d)), format!("sub{i}: {e} (replica {:?}, contents {:?})", kids(&s.replica), contents)));
                    }
                }
                let _ = contents;
                Ok(true)
            }
        }
    }

    /// Poll until Pending with nothing queued: then the replica must equal the
    /// contents.
    fn drain(&mut self, i: usize, st: &mut Stats) -> Result<(), Violation> {
        for _ in 0..64 {
            if !self.poll(i, st)? {
                let contents = self.sender.borrow().vec.clone();
                let rep = kids(&self.subs[i].replica);
                if rep != contents {
                    return Err(viol(
                        self.cfg.prop,
                        self.step,
                        format!("replica-diverged-at-pending/{}", if self.subs[i].batched { "batched" } else { "plain" }),
                        format!("sub{i}: stream is Pending, replica {:?} != contents {:?}", rep, contents),
                    ));
                }
                st.hit("pending_checks");
                return Ok(());
            }
        }
        Err(viol(self.cfg.prop, self.step, "never-quiescent", format!("sub{i} still yields items after 64 polls")))
    }

    fn exec(&mut self, toks: &[Tok], st: &mut Stats) -> Result<(), Violation> {
        for (k, t) in toks.iter().enumerate() {
            self.step = k;
            st.transitions += 1;
            match *t {
                Tok::Op(op) => self.sender.borrow_mut().run_op(op),
                Tok::AtPause(p, op) => self.sender.borrow_mut().queued.push((p, op)),
                Tok::Poll(i) => {
                    let i = i as usize;
                    let got = self.poll(i, st)?;
                    if !got {
                        // Pending and nothing queued any more: if nothing ran
                        // inside or after the poll the replica must be current;
                        // otherwise the next drain checks it.
                    }
                }
                Tok::Drain(i) => self.drain(i as usize, st)?,
            }
        }
        self.step = toks.len();
        {
            let mut snd = self.sender.borrow_mut();
            for (_, op) in std::mem::take(&mut snd.queued) {
                snd.run_op(op);
            }
        }
        if self.cfg.epilogue_drop {
            // drop the vector with whatever is still pending, then every stream
            // must deliver it (or a Reset to the final state) and end
            let ob = self.sender.borrow_mut().ob.take();
            drop(ob);
            for i in 0..self.subs.len() {
                for _ in 0..5000 {
                    if self.ended[i] {
                        break;
                    }
                    self.poll(i, st)?;
                }
                if !self.ended[i] {
                    return Err(viol("C08", self.step, "not-ended-after-drop", format!("sub{i} did not end after the vector was dropped")));
                }
            }
            return Ok(());
        }
        for i in 0..self.subs.len() {
            self.drain(i, st)?;
        }
        let snd = self.sender.borrow();
        if kids_im(snd.ob.as_ref().unwrap()) != snd.vec {
            return Err(viol("C17", self.step, "contents/final", "contents differ from the model".to_string()));
        }
        Ok(())
    }
}

fn plans(prop: &'static str, tier: &str) -> Vec<(&'static str, Vec<Cfg>, usize)> {
    let q = tier == "quick";
    let mut cfgs = Vec::new();
    for capacity in [1usize, 2] {
        for subs in [vec![true], vec![false], vec![true, false]] {
            for init_len in [0u8, 1] {
                cfgs.push(Cfg { capacity, init_len, subs: subs.clone(), max_pause: 2, max_queued: 3, epilogue_drop: prop == "C08", prop });
            }
        }
    }
    vec![("pause-points", cfgs, if q { 5 } else { 6 })]
}

fn main() {
    explore::install_quiet_panic_hook();
    let cli = ev::parse_cli();
    let t0 = Instant::now();
    let opts = ev::opts_for(&cli);
    let prop: &'static str = match cli.prop.as_str() {
        "C05" => "C05",
        "C08" => "C08",
        _ => "C06",
    };
    if let Some(path) = &cli.replay {
        let rf = ev::read_replay(path);
        for (name, cfgs, depth) in plans(prop, &rf.tier) {
            if name == rf.sweep {
                let sw = Sweep { name: name.to_string(), h: &PauseH, cfgs, depth };
                std::process::exit(ev::replay_sweep(&sw, &rf));
            }
        }
        eprintln!("MACHINERY: unknown sweep in replay file");
        std::process::exit(2);
    }
    let mut acc = Acc::default();
    let mut bm = None;
    let mut bounds = Vec::new();
    for (name, cfgs, depth) in plans(prop, &cli.tier) {
        bounds.push(json!({"sweep": name, "depth": explore::depth_bound(depth), "configurations": cfgs.len()}));
        let sw = Sweep { name: name.to_string(), h: &PauseH, cfgs, depth };
        explore::explore(&sw, &opts, &mut acc, &mut bm);
    }
    let f = Finish {
        cli: &cli,
        engine: "seqmc+pause-points",
        bin: "mc-pause",
        rule: "every token sequence over {sender operation between polls, sender operation queued for pause point p of the next poll, poll, drain} up to the depth bound, on the library built with --cfg eyeball_verif: the queued sender operations really run inside the subscriber's poll, before the try_recv of that pause point; non-trivial = the sender ran inside a poll",
        assumptions: vec![
            "interleavings are explored at the instrumented pause points (before every try_recv of the batched drain loop and of handle_lag), not at tokio's internal steps".into(),
            "capacities 1 and 2, vector length <= 6, <= 3 sender operations inside one poll".into(),
        ],
        require: if prop == "C08" {
            vec!["sender_ran_inside_a_poll", "reset_delivered", "lag_caused_by_sender_inside_the_poll", "ended_on_final_state"]
        } else {
            vec!["sender_ran_inside_a_poll", "reset_delivered", "lag_caused_by_sender_inside_the_poll", "pending_checks"]
        },
        bounds: json!(bounds),
        t0,
    };
    std::process::exit(ev::finish(f, &mut acc, &opts));
}
