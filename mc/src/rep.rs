//! Replica maintenance: bounds-checked application of a `VectorDiff` to a
//! plain `Vec`, written against the documented meaning of each variant (not by
//! calling `VectorDiff::apply`, which is itself under test in C18).

use eyeball_im::VectorDiff;

use crate::el::{El, Kid};

/// Apply `d` to `v`; an inapplicable diff is an error, never a panic.
pub fn apply_checked<E: Clone>(d: &VectorDiff<E>, v: &mut Vec<E>) -> Result<(), String> {
    match d {
        VectorDiff::Append { values } => v.extend(values.iter().cloned()),
        VectorDiff::Clear => v.clear(),
        VectorDiff::PushFront { value } => v.insert(0, value.clone()),
        VectorDiff::PushBack { value } => v.push(value.clone()),
        VectorDiff::PopFront => {
            if v.is_empty() {
                return Err("PopFront on an empty replica".into());
            }
            v.remove(0);
        }
        VectorDiff::PopBack => {
            if v.pop().is_none() {
                return Err("PopBack on an empty replica".into());
            }
        }
        VectorDiff::Insert { index, value } => {
            if *index > v.len() {
                return Err(format!("Insert index {} > len {}", index, v.len()));
            }
            v.insert(*index, value.clone());
        }
        VectorDiff::Set { index, value } => {
            if *index >= v.len() {
                return Err(format!("Set index {} >= len {}", index, v.len()));
            }
            v[*index] = value.clone();
        }
        VectorDiff::Remove { index } => {
            if *index >= v.len() {
                return Err(format!("Remove index {} >= len {}", index, v.len()));
            }
            v.remove(*index);
        }
        VectorDiff::Truncate { length } => {
            // Truncating to at least the current length is a documented no-op
            // of `VectorDiff::apply` (C18), not an inapplicable diff.
            v.truncate(*length);
        }
        VectorDiff::Reset { values } => {
            *v = values.iter().cloned().collect();
        }
    }
    Ok(())
}

pub fn kids<E: El>(v: &[E]) -> Vec<Kid> {
    v.iter().map(|e| e.kid()).collect()
}

pub fn kids_im<E: El>(v: &imbl::Vector<E>) -> Vec<Kid> {
    v.iter().map(|e| e.kid()).collect()
}

/// Short name of the diff kind (for signatures and counters).
pub fn diff_kind<E>(d: &VectorDiff<E>) -> &'static str {
    match d {
        VectorDiff::Append { .. } => "Append",
        VectorDiff::Clear => "Clear",
        VectorDiff::PushFront { .. } => "PushFront",
        VectorDiff::PushBack { .. } => "PushBack",
        VectorDiff::PopFront => "PopFront",
        VectorDiff::PopBack => "PopBack",
        VectorDiff::Insert { .. } => "Insert",
        VectorDiff::Set { .. } => "Set",
        VectorDiff::Remove { .. } => "Remove",
        VectorDiff::Truncate { .. } => "Truncate",
        VectorDiff::Reset { .. } => "Reset",
    }
}
