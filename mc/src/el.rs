//! Element types handed to the library.
//!
//! `Plain` is a cheap value; `Tracked` registers every construction, clone and
//! drop in a thread-local registry so that double drops, uses after drop and
//! leaks become immediate, attributable failures (C20).

use std::{cell::RefCell, cmp::Ordering, fmt};

pub type Kid = (u8, u16);

pub trait El: Clone + PartialEq + Ord + fmt::Debug + Send + Sync + 'static {
    const TRACKED: bool;
    fn mk(key: u8, id: u16) -> Self;
    fn key(&self) -> u8;
    fn id(&self) -> u16;
    fn kid(&self) -> Kid {
        (self.key(), self.id())
    }
}

#[derive(Clone, PartialEq, Eq, PartialOrd, Ord, Hash)]
pub struct Plain {
    pub key: u8,
    pub id: u16,
}

impl fmt::Debug for Plain {
    fn fmt(&self, f: &mut fmt::Formatter<'_>) -> fmt::Result {
        write!(f, "{}#{}", self.key, self.id)
    }
}

impl El for Plain {
    const TRACKED: bool = false;
    fn mk(key: u8, id: u16) -> Self {
        Plain { key, id }
    }
    fn key(&self) -> u8 {
        self.key
    }
    fn id(&self) -> u16 {
        self.id
    }
}

// ---------------------------------------------------------------------------

#[derive(Default)]
struct Registry {
    // 0 = never allocated, 1 = live, 2 = dropped
    status: Vec<u8>,
    live: usize,
    constructed: u64,
    cloned: u64,
    dropped: u64,
    errors: Vec<String>,
}

thread_local! {
    static REG: RefCell<Registry> = RefCell::new(Registry::default());
}

/// Reset the registry (start of a sequence).
pub fn reg_reset() {
    REG.with(|r| {
        let mut r = r.borrow_mut();
        r.status.clear();
        r.live = 0;
        r.errors.clear();
    });
}

/// Errors recorded so far (double drop, use after drop).
pub fn reg_errors() -> Vec<String> {
    REG.with(|r| r.borrow().errors.clone())
}

pub fn reg_has_errors() -> bool {
    REG.with(|r| !r.borrow().errors.is_empty())
}

/// Number of live instances.
pub fn reg_live() -> usize {
    REG.with(|r| r.borrow().live)
}

/// Serials of the live instances (for diagnostics).
pub fn reg_live_serials() -> Vec<usize> {
    REG.with(|r| {
        r.borrow().status.iter().enumerate().filter(|(_, s)| **s == 1).map(|(i, _)| i).collect()
    })
}

/// (constructed, cloned, dropped) totals of this thread since start.
pub fn reg_totals() -> (u64, u64, u64) {
    REG.with(|r| {
        let r = r.borrow();
        (r.constructed, r.cloned, r.dropped)
    })
}

fn reg_alloc(is_clone: bool) -> u32 {
    REG.with(|r| {
        let mut r = r.borrow_mut();
        let s = r.status.len() as u32;
        r.status.push(1);
        r.live += 1;
        if is_clone {
            r.cloned += 1;
        } else {
            r.constructed += 1;
        }
        s
    })
}

fn reg_touch(serial: u32, what: &str) {
    REG.with(|r| {
        let mut r = r.borrow_mut();
        let st = r.status.get(serial as usize).copied().unwrap_or(0);
        if st != 1 {
            r.errors.push(format!("{what} of instance #{serial} which is not live (status {st})"));
        }
    });
}

fn reg_drop(serial: u32) {
    REG.with(|r| {
        let mut r = r.borrow_mut();
        let st = r.status.get(serial as usize).copied().unwrap_or(0);
        if st == 1 {
            r.status[serial as usize] = 2;
            r.live -= 1;
            r.dropped += 1;
        } else {
            r.errors.push(format!("drop of instance #{serial} which is not live (status {st})"));
        }
    });
}

pub struct Tracked {
    key: u8,
    id: u16,
    serial: u32,
    // Padding with a recognisable pattern: a value read through a dangling
    // pointer after reuse is unlikely to carry a live serial.
    canary: u32,
}

const CANARY: u32 = 0x5EED_CAFE;

impl Tracked {
    fn check(&self, what: &str) {
        if self.canary != CANARY {
            REG.with(|r| {
                r.borrow_mut().errors.push(format!("{what}: canary destroyed (serial {})", self.serial))
            });
        } else {
            reg_touch(self.serial, what);
        }
    }
}

impl Clone for Tracked {
    fn clone(&self) -> Self {
        self.check("clone");
        Tracked { key: self.key, id: self.id, serial: reg_alloc(true), canary: CANARY }
    }
}

impl Drop for Tracked {
    fn drop(&mut self) {
        if self.canary != CANARY {
            REG.with(|r| {
                r.borrow_mut().errors.push(format!("drop: canary destroyed (serial {})", self.serial))
            });
        } else {
            reg_drop(self.serial);
        }
        self.canary = 0xDEAD_DEAD;
    }
}

impl PartialEq for Tracked {
    fn eq(&self, o: &Self) -> bool {
        self.check("eq");
        o.check("eq");
        self.key == o.key && self.id == o.id
    }
}
impl Eq for Tracked {}
impl PartialOrd for Tracked {
    fn partial_cmp(&self, o: &Self) -> Option<Ordering> {
        Some(self.cmp(o))
    }
}
impl Ord for Tracked {
    fn cmp(&self, o: &Self) -> Ordering {
        self.check("cmp");
        o.check("cmp");
        (self.key, self.id).cmp(&(o.key, o.id))
    }
}
impl std::hash::Hash for Tracked {
    fn hash<H: std::hash::Hasher>(&self, h: &mut H) {
        self.check("hash");
        self.key.hash(h);
        self.id.hash(h);
    }
}

impl fmt::Debug for Tracked {
    fn fmt(&self, f: &mut fmt::Formatter<'_>) -> fmt::Result {
        write!(f, "{}#{}", self.key, self.id)
    }
}

impl El for Tracked {
    const TRACKED: bool = true;
    fn mk(key: u8, id: u16) -> Self {
        Tracked { key, id, serial: reg_alloc(false), canary: CANARY }
    }
    fn key(&self) -> u8 {
        self.check("read");
        self.key
    }
    fn id(&self) -> u16 {
        self.check("read");
        self.id
    }
}
