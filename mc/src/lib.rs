//! Engine A ("seqmc"): bounded exhaustive exploration of operation sequences on
//! the real eyeball objects, in lock-step with a reference model.
//!
//! See /verif/DESIGN.md section 2.1.

pub mod el;
pub mod ev;
pub mod explore;
pub mod rep;
pub mod wk;
