//! Command line, evidence and replay I/O shared by all engine-A binaries.

use std::{collections::BTreeSet, path::PathBuf, time::Instant};

use serde_json::{json, Value};

use crate::explore::{Acc, Findings, Found, Opts};

/// Root of the verification tree (the driver passes its own location so that
/// background snapshots do not write into /verif).
pub fn verif_dir() -> String {
    std::env::var("VERIF_DIR").unwrap_or_else(|_| "/verif".to_string())
}

#[derive(Clone, Debug)]
pub struct Cli {
    pub prop: String,
    pub tier: String,
    pub replay: Option<String>,
    pub threads: usize,
    pub seed: i64,
    pub extra: Vec<String>,
    pub trace_file: Option<String>,
    pub seq_from: u64,
    pub seq_to: u64,
}

pub fn parse_cli() -> Cli {
    let mut prop = String::new();
    let mut tier = std::env::var("VERIF_TIER").unwrap_or_else(|_| "quick".into());
    let mut replay = None;
    let mut threads = std::thread::available_parallelism().map(|n| n.get()).unwrap_or(8);
    let mut extra = Vec::new();
    let mut trace_file = None;
    let mut seq_from = 0u64;
    let mut seq_to = u64::MAX;
    let mut it = std::env::args().skip(1);
    while let Some(a) = it.next() {
        match a.as_str() {
            "--prop" => prop = it.next().expect("--prop needs a value"),
            "--tier" => tier = it.next().expect("--tier needs a value"),
            "--replay" => replay = Some(it.next().expect("--replay needs a path")),
            "--threads" => threads = it.next().unwrap().parse().unwrap(),
            "--seq-from" => seq_from = it.next().unwrap().parse().unwrap(),
            "--seq-to" => seq_to = it.next().unwrap().parse().unwrap(),
            "--trace-file" => trace_file = Some(it.next().expect("--trace-file needs a path")),
            _ => extra.push(a),
        }
    }
    if let Ok(t) = std::env::var("VERIF_THREADS") {
        if let Ok(n) = t.parse() {
            threads = n;
        }
    }
    let seed = std::env::var("VERIF_SEED").ok().and_then(|s| s.parse().ok()).unwrap_or(0);
    if trace_file.is_some() {
        threads = 1;
    }
    Cli { prop, tier, replay, threads, seed, extra, trace_file, seq_from, seq_to }
}

pub fn opts_for(cli: &Cli) -> Opts {
    Opts {
        prop: cli.prop.clone(),
        deadline: crate::explore::default_deadline(&cli.tier),
        threads: cli.threads,
        findings: Findings::load(&format!("{}/known_findings.json", verif_dir())),
        continue_after_violation: false,
        trace_file: cli.trace_file.clone(),
        seq_from: cli.seq_from,
        seq_to: cli.seq_to,
    }
}

pub struct Finish<'a> {
    pub cli: &'a Cli,
    pub engine: &'a str,
    pub bin: &'a str,
    pub rule: &'a str,
    pub assumptions: Vec<String>,
    /// Counters that must be non-zero for the run to count (vacuity guard).
    pub require: Vec<&'static str>,
    pub bounds: Value,
    pub t0: Instant,
}

fn write_replay(f: &Finish<'_>, k: usize, found: &Found) -> String {
    let dir = PathBuf::from(format!("{}/replays/{}", verif_dir(), f.cli.prop));
    let _ = std::fs::create_dir_all(&dir);
    let path = dir.join(format!("{}-{}-{}.json", f.cli.prop, f.bin, k));
    let v = json!({
        "engine": f.engine,
        "bin": f.bin,
        "property": f.cli.prop,
        "tier": f.cli.tier,
        "sweep": found.sweep,
        "cfg_index": found.cfg_idx,
        "cfg": found.cfg,
        "choices": found.choices,
        "tokens": found.tokens,
        "failed_at_step": found.v.step,
        "signature": found.v.sig,
        "detail": found.v.detail,
        "replay_cmd": format!("./check replay {}", path.display()),
    });
    std::fs::write(&path, serde_json::to_string_pretty(&v).unwrap()).expect("cannot write replay file");
    path.display().to_string()
}

/// Write the evidence part, print KNOWN-FINDING / VIOLATION lines, return the
/// exit code (0 held, 1 violation, 2 machinery failure).
pub fn finish(f: Finish<'_>, acc: &mut Acc, opts: &Opts) -> i32 {
    let wall = f.t0.elapsed().as_secs_f64();
    // Deterministic choice of reported violations: shortest first, then
    // configuration index, then lexicographic choices; one per signature.
    acc.violations.sort_by(|a, b| {
        (a.choices.len(), &a.sweep, a.cfg_idx, &a.choices).cmp(&(b.choices.len(), &b.sweep, b.cfg_idx, &b.choices))
    });
    let mut seen = BTreeSet::new();
    let mut reported = Vec::new();
    for v in &acc.violations {
        if seen.insert(v.v.sig.clone()) {
            reported.push(v.clone());
        }
        if reported.len() >= 10 {
            break;
        }
    }
    let mut known_json = Vec::new();
    for (id, hit) in &acc.known {
        let what = opts.findings.open.iter().find(|x| &x.id == id).map(|x| x.what.clone()).unwrap_or_default();
        println!("KNOWN-FINDING: property={} {} ({}; {} sequences hit it)", f.cli.prop, id, what, hit.count);
        known_json.push(json!({
            "id": id, "hits": hit.count,
            "example": hit.example.as_ref().map(|e| json!({"cfg": e.cfg, "tokens": e.tokens, "signature": e.v.sig, "detail": e.v.detail})),
        }));
    }
    let mut replay_paths = Vec::new();
    for (k, v) in reported.iter().enumerate() {
        let p = write_replay(&f, k, v);
        println!("VIOLATION property={} replay={}", f.cli.prop, p);
        eprintln!("  signature: {}\n  cfg: {}\n  tokens: {:?}\n  step {}: {}", v.v.sig, v.cfg, v.tokens, v.v.step, v.v.detail);
        replay_paths.push(p);
    }
    let mut missing = Vec::new();
    for r in &f.require {
        if acc.stats.counters.get(r).copied().unwrap_or(0) == 0 {
            missing.push(*r);
        }
    }
    let vacuous = acc.nontrivial == 0 || !missing.is_empty();
    let exhaustive = !acc.cap_hit && acc.violations.is_empty();
    let counters: serde_json::Map<String, Value> =
        acc.stats.counters.iter().map(|(k, v)| (k.to_string(), json!(v))).collect();
    let part = json!({
        "property_id": f.cli.prop,
        "tier": f.cli.tier,
        "seed": f.cli.seed,
        "level": "model_checking",
        "coverage": {
            "engine": f.engine,
            "evaluations": acc.evaluations,
            "distinct_nontrivial": acc.nontrivial,
            "rule": f.rule,
            "samples": acc.samples,
            "states": acc.states.max(1),
            "transitions": acc.stats.transitions.max(1),
            "traces_validated_against_impl": acc.evaluations,
            "exhaustive": exhaustive,
            "cap_hit": acc.cap_hit,
            "bounds": f.bounds,
            "sweeps": acc.sweeps,
            "interesting_events": counters,
            "known_finding_hits": known_json,
            "sequences_abandoned_on_other_property_divergence": acc.foreign,
            "other_property_divergences": acc.foreign_by_prop,
            "violation_replays": replay_paths,
            "states_note": "distinct model states, counted as set bits of a 2^30-bit map of 64-bit state hashes (a lower bound; exact unless hashes collide)",
        },
        "assumptions": f.assumptions,
        "wall_s": wall,
        "violations": acc.violations.len(),
    });
    let dir = format!("{}/evidence/parts", verif_dir());
    let _ = std::fs::create_dir_all(&dir);
    std::fs::write(format!("{dir}/{}.{}.json", f.cli.prop, f.bin), serde_json::to_string_pretty(&part).unwrap())
        .expect("cannot write evidence part");
    eprintln!(
        "[{}] {} {}: {} sequences, {} transitions, {} non-trivial, {} model states, {} known-finding hits, {} foreign {:?}, {} violations, {:.1}s{}",
        f.bin,
        f.cli.prop,
        f.cli.tier,
        acc.evaluations,
        acc.stats.transitions,
        acc.nontrivial,
        acc.states,
        acc.known.values().map(|k| k.count).sum::<u64>(),
        acc.foreign,
        acc.foreign_by_prop,
        acc.violations.len(),
        wall,
        if acc.cap_hit { " CAP HIT" } else { "" }
    );
    if !reported.is_empty() {
        return 1;
    }
    if acc.cap_hit {
        eprintln!("MACHINERY: time cap hit before the registered bound was completed");
        return 2;
    }
    if vacuous {
        eprintln!("MACHINERY: vacuous run (non-trivial sequences: {}, missing required events: {:?})", acc.nontrivial, missing);
        return 2;
    }
    0
}

/// Parsed replay file.
pub struct ReplayFile {
    pub sweep: String,
    pub cfg_idx: usize,
    pub choices: Vec<u32>,
    pub prop: String,
    pub tier: String,
    pub sig: String,
}

pub fn read_replay(path: &str) -> ReplayFile {
    let txt = std::fs::read_to_string(path).expect("cannot read replay file");
    let v: Value = serde_json::from_str(&txt).expect("replay file is not JSON");
    ReplayFile {
        sweep: v["sweep"].as_str().unwrap().to_string(),
        cfg_idx: v["cfg_index"].as_u64().unwrap() as usize,
        choices: v["choices"].as_array().unwrap().iter().map(|c| c.as_u64().unwrap() as u32).collect(),
        prop: v["property"].as_str().unwrap().to_string(),
        tier: v["tier"].as_str().unwrap().to_string(),
        sig: v["signature"].as_str().unwrap().to_string(),
    }
}

/// Replay one recorded sequence twice; identical outcomes are required.
pub fn replay_sweep<H: crate::explore::Harness>(sw: &crate::explore::Sweep<'_, H>, rf: &ReplayFile) -> i32 {
    let Some(cfg) = sw.cfgs.get(rf.cfg_idx) else {
        eprintln!("MACHINERY: replay configuration index out of range");
        return 2;
    };
    let Some(toks) = crate::explore::tokens_from_choices(sw.h, cfg, &rf.choices) else {
        eprintln!("MACHINERY: replay diverged: a recorded choice is not enabled");
        return 2;
    };
    let mut outcomes = Vec::new();
    for _ in 0..2 {
        let mut st = crate::explore::Stats::default();
        let r = crate::explore::run_one(sw.h, cfg, &toks, &mut st);
        outcomes.push(r.err().map(|v| (v.prop, v.step, v.sig, v.detail)));
    }
    if outcomes[0] != outcomes[1] {
        eprintln!("MACHINERY: replay is not deterministic: {:?} vs {:?}", outcomes[0], outcomes[1]);
        return 2;
    }
    eprintln!("cfg: {:?}\ntokens: {:?}", cfg, toks);
    match &outcomes[0] {
        Some((prop, step, sig, detail)) => {
            println!("VIOLATION property={} replay=(replayed) signature={}", prop, sig);
            eprintln!("  step {step}: {detail}");
            1
        }
        None => {
            println!("replay: the recorded sequence passes on the current tree");
            0
        }
    }
}
