//! Harness `vec`: ObservableVector, its subscribers (plain and batched
//! streams), transactions, entries. Serves C05, C06, C07, C08, C17 and the
//! subscriber-stream half of C14; with `Tracked` elements also C20.
//!
//! See /verif/DESIGN.md section 5.

use std::{
    marker::PhantomData,
    panic::{catch_unwind, AssertUnwindSafe},
    pin::Pin,
    sync::Arc,
    task::{Context, Poll},
    time::Instant,
};

use eyeball_im::{
    ObservableVector, ObservableVectorEntry, ObservableVectorTransaction, ObservableVectorTransactionEntry,
    VectorDiff, VectorSubscriberBatchedStream, VectorSubscriberStream,
};
use futures_core::Stream;
use imbl::Vector;
use mc::{
    el::{self, El, Kid, Plain, Tracked},
    ev::{self, Finish},
    explore::{self, Acc, Harness, Stats, Sweep, Violation},
    rep::{apply_checked, diff_kind, kids, kids_im},
    wk::{flag_waker, Flag},
};
use serde_json::json;

// ---------------------------------------------------------------------------
// Tokens

#[derive(Clone, Copy, Debug, PartialEq, Eq, Hash)]
enum Op {
    Append(u8),
    Clear,
    PushFront,
    PushBack,
    PopFront,
    PopBack,
    Insert(u8),
    Set(u8),
    Remove(u8),
    Truncate(u8),
    EntrySet(u8),
    EntryRemove(u8),
    /// n times set(0, fresh): a long run of single updates
    BurstSet0(u8),
    /// n times push_back(fresh)
    BurstPushBack(u8),
}

#[derive(Clone, Copy, Debug, PartialEq, Eq, Hash)]
enum Kind {
    Plain,
    Batched,
}

#[derive(Clone, Copy, Debug, PartialEq, Eq, Hash)]
enum Tok {
    Op(Op),
    /// Out-of-range variant: must panic, change nothing, notify nobody.
    Oob(Op),
    TxnBegin,
    TxnCommit,
    TxnDrop,
    TxnRollback,
    /// composite: begin; push_back; push_back; commit
    Txn2,
    Subscribe(Kind),
    DropSub(u8),
    Poll(u8),
    Drain(u8),
    DropVec,
}

#[derive(Clone, Copy, Debug, PartialEq, Eq, Hash)]
enum Policy {
    Eager,
    Manual,
}

#[derive(Clone, Copy, Debug, PartialEq, Eq)]
enum Alphabet {
    Full,
    /// One representative per diff kind (deep lag sweeps).
    Reduced,
    /// Representative positions (front, second, middle, chunk boundary, back)
    /// of vectors beyond one 64-item imbl chunk.
    Tree,
}

#[derive(Clone, Debug)]
struct Cfg {
    init_len: u8,
    capacity: usize,
    /// Always-drained batched probe subscriber (learns message boundaries).
    probe: bool,
    pre_subs: Vec<(Kind, Policy)>,
    /// Policy of subscribers created by `Subscribe` tokens.
    new_sub_policy: Policy,
    alphabet: Alphabet,
    txn: bool,
    txn_abort: bool,
    /// offer the composite two-diff transaction token
    txn2: bool,
    /// offer BurstSet0(n) for these n (capacity must exceed n for no lag)
    bursts: Vec<u8>,
    oob: bool,
    subscribe: bool,
    drop_sub: bool,
    drop_vec: bool,
    /// Epilogue: drop the vector and drain every stream to its end.
    epilogue_drop: bool,
    /// Every mutator runs inside a transaction: outside of one only `TxnBegin`
    /// is offered (round 7, seeded C05-13: a transaction body of four
    /// operations - set, pop_back, push_back, set - with the full alphabet).
    txn_body: bool,
    max_len: u8,
    max_subs: u8,
    /// Property blamed for stream-content divergences in this configuration.
    prop: &'static str,
}

// ---------------------------------------------------------------------------
// Enumeration model (cheap, hashable). `run` keeps its own richer state.

#[derive(Clone, Hash, Debug)]
struct SubM {
    alive: bool,
    manual: bool,
}

#[derive(Clone, Hash, Debug)]
struct Model {
    len: u8,
    txn_len: Option<u8>,
    alive: bool,
    subs: Vec<SubM>,
    // Contents matter for the state count, not for enabling.
    vec: Vec<Kid>,
    txn_vec: Vec<Kid>,
    next_id: u16,
}

struct VecH<E: El>(PhantomData<E>);

fn op_effect(op: Op, v: &mut Vec<Kid>, next_id: &mut u16) {
    let mut fresh = || {
        let id = *next_id;
        *next_id += 1;
        (0u8, id)
    };
    match op {
        Op::Append(n) => {
            for _ in 0..n {
                let e = fresh();
                v.push(e);
            }
        }
        Op::Clear => v.clear(),
        Op::PushFront => {
            let e = fresh();
            v.insert(0, e)
        }
        Op::PushBack => {
            let e = fresh();
            v.push(e)
        }
        Op::PopFront => {
            if !v.is_empty() {
                v.remove(0);
            }
        }
        Op::PopBack => {
            v.pop();
        }
        Op::Insert(i) => {
            let e = fresh();
            v.insert(i as usize, e)
        }
        Op::Set(i) | Op::EntrySet(i) => {
            let e = fresh();
            v[i as usize] = e
        }
        Op::Remove(i) | Op::EntryRemove(i) => {
            v.remove(i as usize);
        }
        Op::Truncate(n) => {
            if (n as usize) < v.len() {
                v.truncate(n as usize)
            }
        }
        Op::BurstSet0(n) => {
            for _ in 0..n {
                let e = fresh();
                v[0] = e;
            }
        }
        Op::BurstPushBack(n) => {
            for _ in 0..n {
                let e = fresh();
                v.push(e);
            }
        }
    }
}

fn ops_for(len: u8, max_len: u8, alpha: Alphabet, bursts: &[u8], out: &mut Vec<Tok>) {
    let room = max_len.saturating_sub(len);
    if len > 0 {
        for &n in bursts {
            out.push(Tok::Op(Op::BurstSet0(n)));
        }
    }
    for &n in bursts {
        if len as usize + n as usize <= 200 {
            out.push(Tok::Op(Op::BurstPushBack(n)));
        }
    }
    match alpha {
        Alphabet::Full => {
            if room >= 1 {
                out.push(Tok::Op(Op::PushBack));
                out.push(Tok::Op(Op::PushFront));
            }
            out.push(Tok::Op(Op::PopFront));
            out.push(Tok::Op(Op::PopBack));
            out.push(Tok::Op(Op::Clear));
            for n in 0..=2u8 {
                if n <= room {
                    out.push(Tok::Op(Op::Append(n)));
                }
            }
            if room >= 1 {
                for i in 0..=len {
                    out.push(Tok::Op(Op::Insert(i)));
                }
            }
            for i in 0..len {
                out.push(Tok::Op(Op::Set(i)));
            }
            for i in 0..len {
                out.push(Tok::Op(Op::Remove(i)));
            }
            for n in 0..=len + 1 {
                out.push(Tok::Op(Op::Truncate(n)));
            }
            for i in 0..len {
                out.push(Tok::Op(Op::EntrySet(i)));
            }
            for i in 0..len {
                out.push(Tok::Op(Op::EntryRemove(i)));
            }
        }
        Alphabet::Tree => {
            let mid = len / 2;
            let mut pos = vec![0u8, 1, mid, 63, 64, len.saturating_sub(2), len.saturating_sub(1)];
            pos.retain(|p| *p < len);
            pos.sort();
            pos.dedup();
            if room >= 1 {
                out.push(Tok::Op(Op::PushBack));
                out.push(Tok::Op(Op::PushFront));
                for &i in &pos {
                    out.push(Tok::Op(Op::Insert(i)));
                }
                out.push(Tok::Op(Op::Insert(len)));
            }
            if room >= 2 {
                out.push(Tok::Op(Op::Append(2)));
            }
            if room >= 70 {
                // a payload beyond one 64-item chunk
                out.push(Tok::Op(Op::Append(70)));
            }
            out.push(Tok::Op(Op::PopFront));
            out.push(Tok::Op(Op::PopBack));
            for &i in &pos {
                out.push(Tok::Op(Op::Set(i)));
                out.push(Tok::Op(Op::Remove(i)));
            }
            for n in [0u8, 1, 63, 64, 65, len.saturating_sub(1), len, len + 1] {
                if n <= len + 1 {
                    out.push(Tok::Op(Op::Truncate(n)));
                }
            }
            if len > 0 {
                out.push(Tok::Op(Op::EntrySet(mid.min(len - 1))));
                out.push(Tok::Op(Op::EntryRemove(0)));
                out.push(Tok::Op(Op::EntryRemove(mid.min(len - 1))));
            }
            out.push(Tok::Op(Op::Clear));
        }
        Alphabet::Reduced => {
            if room >= 1 {
                out.push(Tok::Op(Op::PushBack));
            }
            out.push(Tok::Op(Op::PopFront));
            if len > 0 {
                out.push(Tok::Op(Op::Set(0)));
                out.push(Tok::Op(Op::Truncate(len - 1)));
            }
            out.push(Tok::Op(Op::Clear));
        }
    }
}

fn oob_for(len: u8, out: &mut Vec<Tok>) {
    for d in 1..=2u8 {
        out.push(Tok::Oob(Op::Insert(len + d)));
    }
    for d in 0..=1u8 {
        out.push(Tok::Oob(Op::Set(len + d)));
        out.push(Tok::Oob(Op::Remove(len + d)));
        out.push(Tok::Oob(Op::EntrySet(len + d)));
    }
}

impl<E: El> Harness for VecH<E> {
    type Cfg = Cfg;
    type Tok = Tok;
    type Model = Model;

    fn init(&self, cfg: &Cfg) -> Model {
        let mut next_id = 0;
        let mut vec = Vec::new();
        op_effect(Op::Append(cfg.init_len), &mut vec, &mut next_id);
        Model {
            len: cfg.init_len,
            txn_len: None,
            alive: true,
            subs: cfg.pre_subs.iter().map(|(_, p)| SubM { alive: true, manual: *p == Policy::Manual }).collect(),
            vec,
            txn_vec: Vec::new(),
            next_id,
        }
    }

    fn enabled(&self, cfg: &Cfg, m: &Model, out: &mut Vec<Tok>) {
        if m.alive {
            let len = m.txn_len.unwrap_or(m.len);
            if !(cfg.txn_body && m.txn_len.is_none()) {
                ops_for(len, cfg.max_len, cfg.alphabet, &cfg.bursts, out);
                if cfg.oob {
                    oob_for(len, out);
                }
            }
            if cfg.txn {
                match m.txn_len {
                    None => out.push(Tok::TxnBegin),
                    Some(_) => {
                        out.push(Tok::TxnCommit);
                        if cfg.txn_abort {
                            out.push(Tok::TxnDrop);
                            out.push(Tok::TxnRollback);
                        }
                    }
                }
            }
            if cfg.txn2 && m.txn_len.is_none() && m.len + 2 <= cfg.max_len {
                out.push(Tok::Txn2);
            }
            if cfg.subscribe && m.txn_len.is_none() && (m.subs.iter().filter(|s| s.alive).count() as u8) < cfg.max_subs {
                out.push(Tok::Subscribe(Kind::Plain));
                out.push(Tok::Subscribe(Kind::Batched));
            }
            if cfg.drop_vec && m.txn_len.is_none() {
                out.push(Tok::DropVec);
            }
        }
        for (i, s) in m.subs.iter().enumerate() {
            if s.alive {
                if s.manual {
                    out.push(Tok::Poll(i as u8));
                    out.push(Tok::Drain(i as u8));
                }
                if cfg.drop_sub {
                    out.push(Tok::DropSub(i as u8));
                }
            }
        }
    }

    fn step(&self, cfg: &Cfg, m: &mut Model, t: &Tok) {
        match *t {
            Tok::Op(op) => {
                if m.txn_len.is_some() {
                    op_effect(op, &mut m.txn_vec, &mut m.next_id);
                    m.txn_len = Some(m.txn_vec.len() as u8);
                } else {
                    op_effect(op, &mut m.vec, &mut m.next_id);
                    m.len = m.vec.len() as u8;
                }
            }
            Tok::Oob(_) => {
                // a fresh id is consumed by the attempted value
                m.next_id += 1;
            }
            Tok::TxnBegin => {
                m.txn_vec = m.vec.clone();
                m.txn_len = Some(m.len);
            }
            Tok::TxnCommit => {
                m.vec = std::mem::take(&mut m.txn_vec);
                m.len = m.vec.len() as u8;
                m.txn_len = None;
            }
            Tok::TxnDrop => {
                m.txn_vec.clear();
                m.txn_len = None;
            }
            Tok::TxnRollback => {
                m.txn_vec = m.vec.clone();
                m.txn_len = Some(m.len);
            }
            Tok::Txn2 => {
                op_effect(Op::PushBack, &mut m.vec, &mut m.next_id);
                op_effect(Op::PushBack, &mut m.vec, &mut m.next_id);
                m.len = m.vec.len() as u8;
            }
            Tok::Subscribe(_) => m.subs.push(SubM { alive: true, manual: cfg.new_sub_policy == Policy::Manual }),
            Tok::DropSub(i) => m.subs[i as usize].alive = false,
            Tok::Poll(_) | Tok::Drain(_) => {}
            Tok::DropVec => m.alive = false,
        }
    }

    fn run(&self, cfg: &Cfg, toks: &[Tok], st: &mut Stats) -> Result<(), Violation> {
        if E::TRACKED {
            el::reg_reset();
        }
        let r = {
            let mut w = World::<E>::new(cfg);
            let r = w.exec(toks, st);
            drop(w);
            r
        };
        if E::TRACKED && r.is_ok() {
            let errs = el::reg_errors();
            if !errs.is_empty() {
                return Err(Violation { prop: "C20", step: toks.len(), sig: "tracked-misuse".into(), detail: errs.join("; ") });
            }
            if el::reg_live() != 0 {
                return Err(Violation {
                    prop: "C20",
                    step: toks.len(),
                    sig: "leak".into(),
                    detail: format!("{} element instances still alive after everything was dropped (serials {:?})", el::reg_live(), el::reg_live_serials()),
                });
            }
            st.mark("tracked_sequences_balanced");
        }
        r
    }

    fn panic_prop(&self, cfg: &Cfg) -> &'static str {
        cfg.prop
    }
}

// ---------------------------------------------------------------------------
// Execution on the real objects

enum StreamR<E: El> {
    Plain(VectorSubscriberStream<E>),
    Batched(VectorSubscriberBatchedStream<E>),
}

struct SubR<E: El> {
    kind: Kind,
    policy: Policy,
    stream: Option<StreamR<E>>,
    replica: Vec<E>,
    /// Index of the next message (in `Rest::msgs`) this subscriber receives.
    next_seq: usize,
    /// Diffs of `msgs[next_seq]` already handed out (plain stream only).
    mid: usize,
    last_pending: Option<Arc<Flag>>,
    ended: bool,
    /// state-based checking (see `poll_sub`)
    lenient: bool,
    /// with `lenient`: number of messages broadcast up to the last point at
    /// which this subscriber was known to be in sync
    sync_seq: usize,
}

struct Probe<E: El> {
    stream: VectorSubscriberBatchedStream<E>,
    replica: Vec<E>,
    last_pending: Option<Arc<Flag>>,
}

struct Msg<E: El> {
    diffs: Vec<VectorDiff<E>>,
    post: Vec<Kid>,
}

#[derive(Clone, Copy, PartialEq, Eq, Debug)]
enum Recorded {
    None,
    Maybe,
    Some,
}

struct Rest<E: El> {
    cfg: Cfg,
    /// Committed contents (reference model).
    vec: Vec<Kid>,
    next_id: u16,
    alive: bool,
    subs: Vec<SubR<E>>,
    probe: Option<Probe<E>>,
    /// Every message broadcast so far, as learned from the probe.
    msgs: Vec<Msg<E>>,
    step: usize,
    _p: PhantomData<E>,
}

struct World<E: El> {
    ob: Option<ObservableVector<E>>,
    r: Rest<E>,
}

trait Target<E: El> {
    fn t_append(&mut self, v: Vector<E>);
    fn t_clear(&mut self);
    fn t_push_front(&mut self, v: E);
    fn t_push_back(&mut self, v: E);
    fn t_pop_front(&mut self) -> Option<E>;
    fn t_pop_back(&mut self) -> Option<E>;
    fn t_insert(&mut self, i: usize, v: E);
    fn t_set(&mut self, i: usize, v: E) -> E;
    fn t_remove(&mut self, i: usize) -> E;
    fn t_truncate(&mut self, n: usize);
    /// entry(i) -> (index reported, value seen, old value returned by set)
    fn t_entry_set(&mut self, i: usize, v: E) -> (usize, Kid, E);
    fn t_entry_remove(&mut self, i: usize) -> (usize, Kid, E);
    fn t_contents(&self) -> Vec<Kid>;
}

impl<E: El> Target<E> for ObservableVector<E> {
    fn t_append(&mut self, v: Vector<E>) {
        self.append(v)
    }
    fn t_clear(&mut self) {
        self.clear()
    }
    fn t_push_front(&mut self, v: E) {
        self.push_front(v)
    }
    fn t_push_back(&mut self, v: E) {
        self.push_back(v)
    }
    fn t_pop_front(&mut self) -> Option<E> {
        self.pop_front()
    }
    fn t_pop_back(&mut self) -> Option<E> {
        self.pop_back()
    }
    fn t_insert(&mut self, i: usize, v: E) {
        self.insert(i, v)
    }
    fn t_set(&mut self, i: usize, v: E) -> E {
        self.set(i, v)
    }
    fn t_remove(&mut self, i: usize) -> E {
        self.remove(i)
    }
    fn t_truncate(&mut self, n: usize) {
        self.truncate(n)
    }
    fn t_entry_set(&mut self, i: usize, v: E) -> (usize, Kid, E) {
        let mut e = self.entry(i);
        let idx = ObservableVectorEntry::index(&e);
        let seen = (*e).kid();
        let old = ObservableVectorEntry::set(&mut e, v);
        (idx, seen, old)
    }
    fn t_entry_remove(&mut self, i: usize) -> (usize, Kid, E) {
        let e = self.entry(i);
        let idx = ObservableVectorEntry::index(&e);
        let seen = (*e).kid();
        let old = ObservableVectorEntry::remove(e);
        (idx, seen, old)
    }
    fn t_contents(&self) -> Vec<Kid> {
        kids_im(self)
    }
}

impl<E: El> Target<E> for ObservableVectorTransaction<'_, E> {
    fn t_append(&mut self, v: Vector<E>) {
        self.append(v)
    }
    fn t_clear(&mut self) {
        self.clear()
    }
    fn t_push_front(&mut self, v: E) {
        self.push_front(v)
    }
    fn t_push_back(&mut self, v: E) {
        self.push_back(v)
    }
    fn t_pop_front(&mut self) -> Option<E> {
        self.pop_front()
    }
    fn t_pop_back(&mut self) -> Option<E> {
        self.pop_back()
    }
    fn t_insert(&mut self, i: usize, v: E) {
        self.insert(i, v)
    }
    fn t_set(&mut self, i: usize, v: E) -> E {
        self.set(i, v)
    }
    fn t_remove(&mut self, i: usize) -> E {
        self.remove(i)
    }
    fn t_truncate(&mut self, n: usize) {
        self.truncate(n)
    }
    fn t_entry_set(&mut self, i: usize, v: E) -> (usize, Kid, E) {
        let mut e = self.entry(i);
        let idx = ObservableVectorTransactionEntry::index(&e);
        let seen = (*e).kid();
        let old = ObservableVectorTransactionEntry::set(&mut e, v);
        (idx, seen, old)
    }
    fn t_entry_remove(&mut self, i: usize) -> (usize, Kid, E) {
        let e = self.entry(i);
        let idx = ObservableVectorTransactionEntry::index(&e);
        let seen = (*e).kid();
        let old = ObservableVectorTransactionEntry::remove(e);
        (idx, seen, old)
    }
    fn t_contents(&self) -> Vec<Kid> {
        kids_im(self)
    }
}

/// Property blamed for a divergence in what a stream delivers: the property
/// under check if it is one of the stream-content properties, else C07 (the
/// one that names empty batches).
fn content_prop(prop: &'static str) -> &'static str {
    match prop {
        "C05" | "C06" | "C07" | "C08" => prop,
        _ => "C07",
    }
}

/// A lag-induced Reset that does not carry the current contents. That a Reset
/// is current "as of the moment it is delivered" is C06's statement, so the
/// divergence is C06's. C08 only speaks about the replica at the end of the
/// stream and C07 about states that were never published: under C08 any
/// Reset is tolerated (checking goes on state-based), under C07 the Reset
/// must carry a state the vector had after one of the messages this
/// subscriber has not seen yet.
#[allow(clippy::too_many_arguments)]
fn stale_reset<E: El>(prop: &'static str, step: usize, name: &str, kind: Kind, got: &[Kid], contents: &[Kid], unseen: &[Msg<E>]) -> Result<(), Violation> {
    match prop {
        "C08" => Ok(()),
        "C07" => {
            if unseen.iter().any(|m| m.post == got) {
                Ok(())
            } else {
                Err(viol(
                    "C07",
                    step,
                    format!("reset-to-a-state-never-published/{:?}", kind),
                    format!("{name}: Reset carries {:?}, which is not the state after any message this subscriber had not seen (contents {:?})", got, contents),
                ))
            }
        }
        _ => Err(viol(
            "C06",
            step,
            format!("reset-not-current/{:?}", kind),
            format!("{name}: Reset carries {:?} but the vector contains {:?}", got, contents),
        )),
    }
}

fn viol(prop: &'static str, step: usize, sig: impl Into<String>, detail: impl Into<String>) -> Violation {
    Violation { prop, step, sig: sig.into(), detail: detail.into() }
}

/// Apply one mutator to target and model, comparing return values and
/// contents (C17). Returns whether the call may have recorded/broadcast a diff
/// and whether it must have.
fn apply_op<E: El, T: Target<E>>(
    t: &mut T,
    op: Op,
    mv: &mut Vec<Kid>,
    next_id: &mut u16,
    step: usize,
    st: &mut Stats,
) -> Result<(bool, bool), Violation> {
    let pre = mv.clone();
    let id0 = *next_id;
    let mut fresh = {
        let mut n = id0;
        move || {
            let e = E::mk(0, n);
            n += 1;
            e
        }
    };
    let bad = |what: String| viol("C17", step, format!("return-value/{:?}", op_name(op)), what);
    // (may_notify, must_notify)
    let mut notify = (true, true);
    match op {
        Op::Append(n) => {
            let v: Vector<E> = (0..n).map(|_| fresh()).collect();
            t.t_append(v);
            if n == 0 {
                notify = (true, false);
            }
        }
        Op::Clear => {
            t.t_clear();
            if pre.is_empty() {
                // direct: documented no-op; transaction: may record a Clear
                notify = (true, false);
            }
        }
        Op::PushFront => t.t_push_front(fresh()),
        Op::PushBack => t.t_push_back(fresh()),
        Op::PopFront => {
            let r = t.t_pop_front().map(|e| e.kid());
            let exp = pre.first().copied();
            if r != exp {
                return Err(bad(format!("pop_front returned {:?}, a plain vector gives {:?}", r, exp)));
            }
            if pre.is_empty() {
                notify = (false, false);
                st.hit("noop_pop_on_empty");
            }
        }
        Op::PopBack => {
            let r = t.t_pop_back().map(|e| e.kid());
            let exp = pre.last().copied();
            if r != exp {
                return Err(bad(format!("pop_back returned {:?}, a plain vector gives {:?}", r, exp)));
            }
            if pre.is_empty() {
                notify = (false, false);
                st.hit("noop_pop_on_empty");
            }
        }
        Op::Insert(i) => t.t_insert(i as usize, fresh()),
        Op::Set(i) => {
            let r = t.t_set(i as usize, fresh()).kid();
            if r != pre[i as usize] {
                return Err(bad(format!("set({i}) returned {:?}, expected the replaced {:?}", r, pre[i as usize])));
            }
        }
        Op::Remove(i) => {
            let r = t.t_remove(i as usize).kid();
            if r != pre[i as usize] {
                return Err(bad(format!("remove({i}) returned {:?}, expected {:?}", r, pre[i as usize])));
            }
        }
        Op::Truncate(n) => {
            t.t_truncate(n as usize);
            if n as usize >= pre.len() {
                notify = (false, false);
                st.hit("noop_truncate");
            }
        }
        Op::EntrySet(i) => {
            let (idx, seen, old) = t.t_entry_set(i as usize, fresh());
            if idx != i as usize || seen != pre[i as usize] || old.kid() != pre[i as usize] {
                return Err(bad(format!(
                    "entry({i}): index {idx}, deref {:?}, set returned {:?}; expected index {i} and {:?}",
                    seen,
                    old.kid(),
                    pre[i as usize]
                )));
            }
        }
        Op::BurstSet0(_) | Op::BurstPushBack(_) => unreachable!("bursts are expanded into single calls by the interpreter"),
        Op::EntryRemove(i) => {
            let (idx, seen, old) = t.t_entry_remove(i as usize);
            if idx != i as usize || seen != pre[i as usize] || old.kid() != pre[i as usize] {
                return Err(bad(format!(
                    "entry({i}): index {idx}, deref {:?}, remove returned {:?}; expected index {i} and {:?}",
                    seen,
                    old.kid(),
                    pre[i as usize]
                )));
            }
        }
    }
    op_effect(op, mv, next_id);
    if matches!(op, Op::Clear) && pre.is_empty() {
        st.hit("noop_clear_on_empty");
    }
    let got = t.t_contents();
    if &got != mv {
        return Err(viol(
            "C17",
            step,
            format!("contents/{}", op_name(op)),
            format!("after {:?} on {:?}: contents {:?}, a plain vector gives {:?}", op, pre, got, mv),
        ));
    }
    Ok(notify)
}

fn op_name(op: Op) -> &'static str {
    match op {
        Op::Append(_) => "append",
        Op::Clear => "clear",
        Op::PushFront => "push_front",
        Op::PushBack => "push_back",
        Op::PopFront => "pop_front",
        Op::PopBack => "pop_back",
        Op::Insert(_) => "insert",
        Op::Set(_) => "set",
        Op::Remove(_) => "remove",
        Op::Truncate(_) => "truncate",
        Op::EntrySet(_) => "entry_set",
        Op::EntryRemove(_) => "entry_remove",
        Op::BurstSet0(_) => "burst_set",
        Op::BurstPushBack(_) => "burst_push_back",
    }
}

/// Out-of-range call: must panic and leave the contents alone.
fn apply_oob<E: El, T: Target<E>>(t: &mut T, op: Op, mv: &[Kid], next_id: &mut u16, step: usize, st: &mut Stats) -> Result<(), Violation> {
    let v = E::mk(0, *next_id);
    *next_id += 1;
    let r = catch_unwind(AssertUnwindSafe(|| match op {
        Op::Insert(i) => t.t_insert(i as usize, v),
        Op::Set(i) => {
            t.t_set(i as usize, v);
        }
        Op::Remove(i) => {
            drop(v);
            t.t_remove(i as usize);
        }
        Op::EntrySet(i) => {
            t.t_entry_set(i as usize, v);
        }
        _ => unreachable!(),
    }));
    if r.is_ok() {
        return Err(viol("C17", step, format!("oob-no-panic/{}", op_name(op)), format!("{:?} on a vector of length {} did not panic", op, mv.len())));
    }
    let got = t.t_contents();
    if got != mv {
        return Err(viol("C17", step, format!("oob-changed/{}", op_name(op)), format!("{:?} panicked but contents changed from {:?} to {:?}", op, mv, got)));
    }
    st.mark("oob_panics_checked");
    Ok(())
}

impl<E: El> SubR<E> {
    fn new(kind: Kind, policy: Policy, ob: &ObservableVector<E>, variant: usize, next_seq: usize) -> (Self, Vec<Kid>) {
        let sub = ob.subscribe();
        let (values, stream) = match (kind, variant % 2) {
            (Kind::Plain, 0) => {
                let (v, s) = sub.into_values_and_stream();
                (v, StreamR::Plain(s))
            }
            (Kind::Plain, _) => {
                let v = sub.values();
                (v, StreamR::Plain(sub.into_stream()))
            }
            (Kind::Batched, 0) => {
                let (v, s) = sub.into_values_and_batched_stream();
                (v, StreamR::Batched(s))
            }
            (Kind::Batched, _) => {
                let v = sub.values();
                (v, StreamR::Batched(sub.into_batched_stream()))
            }
        };
        let snap = kids_im(&values);
        (
            SubR {
                kind,
                policy,
                stream: Some(stream),
                replica: values.into_iter().collect(),
                next_seq,
                mid: 0,
                last_pending: None,
                ended: false,
                lenient: false,
                sync_seq: next_seq,
            },
            snap,
        )
    }
}

#[derive(Clone, Copy, PartialEq, Eq, Debug)]
enum Polled {
    Pending,
    Item,
    End,
}

impl<E: El> Rest<E> {
    fn ring(&self) -> usize {
        self.cfg.capacity.next_power_of_two()
    }

    /// Poll subscriber `i` once and check everything the properties say about
    /// what it may answer.
    ///
    /// While a subscriber's items agree diff by diff with what the
    /// always-drained subscriber received (that agreement is C05's statement),
    /// its position in the message log is known exactly. Under the other
    /// properties a disagreement is no violation by itself: the subscriber
    /// switches to a state-based ("lenient") mode in which only what that
    /// property states is checked.
    fn poll_sub(&mut self, i: usize, st: &mut Stats) -> Result<Polled, Violation> {
        let step = self.step;
        let prop = self.cfg.prop;
        let cap = self.cfg.capacity;
        let ring = self.ring();
        let alive = self.alive;
        let total = self.msgs.len();
        let contents = &self.vec;
        let msgs = &self.msgs;
        let s = &mut self.subs[i];
        let name = format!("sub{i}");
        if s.ended || s.stream.is_none() {
            return Ok(Polled::End);
        }
        let (flag, waker) = flag_waker();
        let mut cx = Context::from_waker(&waker);
        let res: Poll<Option<Vec<VectorDiff<E>>>> = match s.stream.as_mut().unwrap() {
            StreamR::Plain(p) => Pin::new(p).poll_next(&mut cx).map(|o| o.map(|d| vec![d])),
            StreamR::Batched(b) => Pin::new(b).poll_next(&mut cx),
        };
        st.transitions += 1;
        // C14: never ready again without the waker of the Pending poll having
        // been woken.
        if let Poll::Ready(_) = &res {
            if let Some(f) = s.last_pending.take() {
                if !f.woken() {
                    return Err(viol(
                        "C14",
                        step,
                        format!("ready-without-wake/{:?}", s.kind),
                        format!("{name}: poll is Ready but the waker of its previous Pending poll was never woken"),
                    ));
                }
                st.mark("pending_then_woken_then_ready");
            }
        }
        if !self.cfg.probe {
            // Without the always-drained subscriber there is no message log
            // (these configurations exist so that *all* receivers can go away,
            // e.g. in the middle of a transaction): only applicability, the
            // end-of-stream rule and the element accounting (C20) are checked.
            return match res {
                Poll::Pending => {
                    s.last_pending = Some(flag);
                    Ok(Polled::Pending)
                }
                Poll::Ready(None) => {
                    if alive {
                        return Err(viol("C08", step, format!("ended-while-alive/{:?}", s.kind), format!("{name}: stream ended although the vector is alive")));
                    }
                    s.ended = true;
                    Ok(Polled::End)
                }
                Poll::Ready(Some(batch)) => {
                    for d in &batch {
                        if let Err(e) = apply_checked(d, &mut s.replica) {
                            return Err(viol(prop, step, format!("inapplicable/{}", diff_kind(d)), format!("{name}: {e}")));
                        }
                    }
                    if batch.len() > 1 || matches!(s.kind, Kind::Plain) {
                        s.mid = 1; // "has received something": used by the mid-batch counter only
                    }
                    Ok(Polled::Item)
                }
            };
        }
        let pending_msgs = if s.mid > 0 { total - s.next_seq - 1 } else { total - s.next_seq };
        // ------------------------------------------------------------------
        // Does the answer agree structurally with the message log?
        let mut disagreement: Option<(String, String)> = None;
        if !s.lenient {
            match &res {
                Poll::Pending => {
                    if alive && (pending_msgs > 0 || s.mid > 0) {
                        disagreement = Some((
                            format!("pending-with-undelivered/{:?}", s.kind),
                            format!("{name}: Pending although {pending_msgs} message(s) are undelivered (mid-batch: {})", s.mid),
                        ));
                    }
                }
                Poll::Ready(None) => {}
                Poll::Ready(Some(batch)) => {
                    let is_reset = batch.len() == 1 && matches!(batch[0], VectorDiff::Reset { .. }) && s.mid == 0;
                    if batch.is_empty() || is_reset {
                        // judged below
                    } else if pending_msgs == 0 && s.mid == 0 {
                        disagreement = Some((format!("unexpected-item/{:?}", s.kind), format!("{name}: received {:?} although nothing was broadcast for it", batch)));
                    } else {
                        match s.kind {
                            Kind::Plain => {
                                let exp = &msgs[s.next_seq].diffs[s.mid];
                                if &batch[0] != exp {
                                    disagreement = Some((
                                        format!("diff-differs-from-twin/{}", diff_kind(&batch[0])),
                                        format!(
                                            "{name}: received {:?} where the always-drained batched subscriber received {:?} (message {} diff {})",
                                            batch[0], exp, s.next_seq, s.mid
                                        ),
                                    ));
                                }
                            }
                            Kind::Batched => {
                                // the same diffs, concatenated: one item is a non-empty
                                // prefix of what is pending (whether it must be *all* of
                                // it is C06's business, whether it may end inside a
                                // message is C07's)
                                let exp: Vec<VectorDiff<E>> = msgs[s.next_seq..].iter().flat_map(|m| m.diffs.iter().cloned()).skip(s.mid).collect();
                                if batch.len() > exp.len() || batch[..] != exp[..batch.len()] {
                                    disagreement = Some((
                                        "batch-differs-from-concatenation".to_string(),
                                        format!("{name}: received {:?}, the pending messages concatenated are {:?}", batch, exp),
                                    ));
                                }
                            }
                        }
                    }
                }
            }
            if let Some((sig, detail)) = disagreement {
                if prop == "C05" {
                    return Err(viol("C05", step, sig, detail));
                }
                // not this property's business: go on state-based, from the
                // last point at which this subscriber was certainly in sync
                // (creation, a Pending answer with replica == contents)
                s.lenient = true;
                st.hit("subscriber_switched_to_state_based_checking");
            }
        }
        if s.lenient {
            return match res {
                Poll::Pending => {
                    if !alive {
                        return Err(viol("C08", step, format!("pending-after-drop/{:?}", s.kind), format!("{name}: Pending although the vector was dropped")));
                    }
                    let rep = kids(&s.replica);
                    if &rep != contents {
                        return Err(viol(
                            prop,
                            step,
                            format!("replica-diverged-at-pending/{:?}", s.kind),
                            format!("{name}: stream is Pending, replica {:?} != contents {:?}", rep, contents),
                        ));
                    }
                    s.sync_seq = total;
                    s.last_pending = Some(flag);
                    st.hit("pending_checks");
                    Ok(Polled::Pending)
                }
                Poll::Ready(None) => {
                    if alive {
                        return Err(viol("C08", step, format!("ended-while-alive/{:?}", s.kind), format!("{name}: stream ended although the vector is alive")));
                    }
                    let rep = kids(&s.replica);
                    if &rep != contents {
                        return Err(viol(
                            "C08",
                            step,
                            format!("ended-before-final-state/{:?}", s.kind),
                            format!("{name}: stream ended with replica {:?} but the final contents were {:?}", rep, contents),
                        ));
                    }
                    s.ended = true;
                    st.mark("ended_on_final_state");
                    Ok(Polled::End)
                }
                Poll::Ready(Some(batch)) => {
                    if batch.is_empty() {
                        return Err(viol(content_prop(prop), step, "empty-batch", format!("{name}: received an empty batch")));
                    }
                    if batch.len() == 1 && matches!(batch[0], VectorDiff::Reset { .. }) {
                        let VectorDiff::Reset { values } = &batch[0] else { unreachable!() };
                        let got = kids_im(values);
                        let current = &got == contents;
                        if !current {
                            stale_reset(prop, step, &name, s.kind, &got, contents, &msgs[s.sync_seq.min(total)..total])?;
                            st.hit("stale_reset_tolerated_under_this_property");
                        }
                        // conservative: everything broadcast since the last point at
                        // which this subscriber was known to be in sync
                        if prop == "C06" && total - s.sync_seq <= cap {
                            return Err(viol(
                                "C06",
                                step,
                                format!("reset-without-lag/{:?}", s.kind),
                                format!("{name}: received Reset although at most {} message(s) can be pending, capacity {cap}", total - s.sync_seq),
                            ));
                        }
                        // (a Reset is no certain sync point: an implementation may
                        // still hold older diffs back, so `sync_seq` stays)
                        s.replica = values.iter().cloned().collect();
                        st.mark("reset_delivered");
                        return Ok(Polled::Item);
                    }
                    if s.sync_seq >= total {
                        // an item although nothing was broadcast since the last
                        // certain sync point: only C05 forbids it (exact mode);
                        // here its effect on the replica is what counts
                        st.hit("state_based_item_without_broadcast");
                    }
                    for d in &batch {
                        if let Err(e) = apply_checked(d, &mut s.replica) {
                            return Err(viol(prop, step, format!("inapplicable/{}", diff_kind(d)), format!("{name}: {e}")));
                        }
                    }
                    if s.kind == Kind::Batched {
                        let rep = kids(&s.replica);
                        match prop {
                            "C06" => {
                                if &rep != contents {
                                    return Err(viol(
                                        "C06",
                                        step,
                                        "batched-item-not-up-to-date",
                                        format!("{name}: after one batched item replica is {:?}, contents {:?}", rep, contents),
                                    ));
                                }
                                s.sync_seq = total;
                            }
                            "C07" => {
                                // never a state strictly inside a transaction: the
                                // replica must be the state after some whole message
                                match (s.sync_seq..total).find(|j| msgs[*j].post == rep) {
                                    Some(j) => s.sync_seq = j + 1,
                                    None => {
                                        return Err(viol(
                                            "C07",
                                            step,
                                            "batched-item-exposes-intermediate-state",
                                            format!("{name}: after one batched item the replica {:?} is not a state the vector had between top-level operations", rep),
                                        ));
                                    }
                                }
                            }
                            _ => {}
                        }
                    }
                    Ok(Polled::Item)
                }
            };
        }
        // ------------------------------------------------------------------
        // Exact mode: the subscriber's position in the message log is known.
        match res {
            Poll::Pending => {
                if !alive {
                    return Err(viol("C08", step, format!("pending-after-drop/{:?}", s.kind), format!("{name}: Pending although the vector was dropped")));
                }
                let rep = kids(&s.replica);
                if &rep != contents {
                    return Err(viol(
                        prop,
                        step,
                        format!("replica-diverged-at-pending/{:?}", s.kind),
                        format!("{name}: stream is Pending, replica {:?} != contents {:?}", rep, contents),
                    ));
                }
                s.last_pending = Some(flag);
                s.sync_seq = total;
                st.hit("pending_checks");
                Ok(Polled::Pending)
            }
            Poll::Ready(None) => {
                if alive {
                    return Err(viol("C08", step, format!("ended-while-alive/{:?}", s.kind), format!("{name}: stream ended although the vector is alive")));
                }
                let rep = kids(&s.replica);
                if prop == "C05" && pending_msgs <= cap && (pending_msgs > 0 || s.mid > 0) {
                    // a subscriber within capacity receives the diffs of every
                    // call - also of the last ones before the vector went away
                    return Err(viol(
                        "C05",
                        step,
                        format!("stream-ended-with-undelivered-diffs/{:?}", s.kind),
                        format!("{name}: the stream ended although {pending_msgs} message(s) (mid-batch: {}) were never delivered; replica {:?}, final contents {:?}", s.mid, rep, contents),
                    ));
                }
                if &rep != contents {
                    return Err(viol(
                        "C08",
                        step,
                        format!("ended-before-final-state/{:?}", s.kind),
                        format!(
                            "{name}: stream ended with replica {:?} but the final contents were {:?} ({pending_msgs} message(s) were still pending, capacity {cap})",
                            rep, contents
                        ),
                    ));
                }
                s.ended = true;
                st.mark("ended_on_final_state");
                Ok(Polled::End)
            }
            Poll::Ready(Some(batch)) => {
                if batch.is_empty() {
                    return Err(viol(content_prop(prop), step, "empty-batch", format!("{name}: received an empty batch")));
                }
                let is_reset = batch.len() == 1 && matches!(batch[0], VectorDiff::Reset { .. }) && s.mid == 0;
                if is_reset && pending_msgs > cap {
                    // lag-induced Reset
                    let VectorDiff::Reset { values } = &batch[0] else { unreachable!() };
                    let got = kids_im(values);
                    if &got != contents {
                        // C06 states that a Reset is current; under the other
                        // properties go on state-based from here
                        stale_reset(prop, step, &name, s.kind, &got, contents, &msgs[s.next_seq..total])?;
                        st.hit("stale_reset_tolerated_under_this_property");
                        s.replica = values.iter().cloned().collect();
                        s.lenient = true;
                        s.sync_seq = s.next_seq;
                        s.mid = 0;
                        st.mark("reset_delivered");
                        return Ok(Polled::Item);
                    }
                    s.replica = values.iter().cloned().collect();
                    s.next_seq = total;
                    s.mid = 0;
                    st.mark("reset_delivered");
                    if !alive {
                        st.mark("reset_after_drop");
                    }
                    if pending_msgs == ring + 1 {
                        st.hit("reset_at_ring_plus_one");
                    }
                    return Ok(Polled::Item);
                }
                if is_reset {
                    return Err(viol(
                        "C06",
                        step,
                        format!("reset-without-lag/{:?}", s.kind),
                        format!("{name}: received Reset with only {pending_msgs} pending message(s), capacity {cap}"),
                    ));
                }
                if pending_msgs == cap && s.mid == 0 {
                    st.hit("lag_exactly_at_capacity_no_reset");
                }
                match s.kind {
                    Kind::Plain => {
                        let d = &batch[0];
                        let m = &msgs[s.next_seq];
                        if let Err(e) = apply_checked(d, &mut s.replica) {
                            return Err(viol(prop, step, format!("inapplicable/{}", diff_kind(d)), format!("{name}: {e}")));
                        }
                        s.mid += 1;
                        if s.mid > 1 {
                            st.hit("plain_stream_mid_batch");
                        }
                        if s.mid == m.diffs.len() {
                            let rep = kids(&s.replica);
                            if rep != m.post {
                                return Err(viol(
                                    prop,
                                    step,
                                    "message-does-not-reach-post-state",
                                    format!("{name}: after message {} replica is {:?}, the vector was {:?}", s.next_seq, rep, m.post),
                                ));
                            }
                            s.mid = 0;
                            s.next_seq += 1;
                            st.mark("message_replayed_to_post_state");
                        }
                    }
                    Kind::Batched => {
                        for d in &batch {
                            if let Err(e) = apply_checked(d, &mut s.replica) {
                                return Err(viol(prop, step, format!("inapplicable/{}", diff_kind(d)), format!("{name}: {e}")));
                            }
                        }
                        // advance through the message log by the number of diffs taken
                        let start_seq = s.next_seq;
                        let mut left = batch.len();
                        while left > 0 {
                            let rest = msgs[s.next_seq].diffs.len() - s.mid;
                            if left >= rest {
                                left -= rest;
                                s.mid = 0;
                                s.next_seq += 1;
                            } else {
                                s.mid += left;
                                left = 0;
                            }
                        }
                        let up_to_date = s.next_seq == total && s.mid == 0;
                        // The batch agreed with a *prefix* of the log. That may be a
                        // coincidence (a stream that compacts its batches can deliver
                        // `[Clear]` for the messages `[Clear]`, `[Clear]`): what C06 and
                        // C07 say is about the state the item leaves behind, so if that
                        // state is fine the position assumption was wrong, not the stream.
                        let rep_now = kids(&s.replica);
                        if (s.mid != 0 && prop == "C07" && msgs[start_seq..total].iter().any(|m| m.post == rep_now)) || (!up_to_date && prop == "C06" && &rep_now == contents) {
                            s.lenient = true;
                            if prop == "C06" {
                                s.sync_seq = total;
                            }
                            s.mid = 0;
                            st.hit("subscriber_switched_to_state_based_checking");
                            return Ok(Polled::Item);
                        }
                        if s.mid != 0 && prop == "C07" {
                            return Err(viol(
                                "C07",
                                step,
                                "batched-item-exposes-intermediate-state",
                                format!("{name}: one batched item ends after diff {} of message {}: the replica {:?} is a state inside that message", s.mid, s.next_seq, kids(&s.replica)),
                            ));
                        }
                        if !up_to_date && prop == "C06" {
                            return Err(viol(
                                "C06",
                                step,
                                "batched-item-not-up-to-date",
                                format!("{name}: one batched item delivered {} diff(s) but {} message(s) stay undelivered", batch.len(), total - s.next_seq),
                            ));
                        }
                        if s.mid == 0 {
                            let rep = kids(&s.replica);
                            let exp_state = if s.next_seq == 0 { None } else { Some(&msgs[s.next_seq - 1].post) };
                            if let Some(exp_state) = exp_state {
                                if &rep != exp_state {
                                    return Err(viol(
                                        prop,
                                        step,
                                        "message-does-not-reach-post-state",
                                        format!("{name}: after message {} replica is {:?}, the vector was {:?}", s.next_seq - 1, rep, exp_state),
                                    ));
                                }
                            }
                        }
                        if s.next_seq - start_seq > 1 {
                            st.mark("batched_concatenated_several_messages");
                        } else {
                            st.mark("message_replayed_to_post_state");
                        }
                    }
                }
                Ok(Polled::Item)
            }
        }
    }


    /// Poll the probe once. `Some(batch)` if it received an item.
    fn poll_probe(&mut self, st: &mut Stats) -> Result<Option<Vec<VectorDiff<E>>>, Violation> {
        let step = self.step;
        let p = self.probe.as_mut().unwrap();
        let (flag, waker) = flag_waker();
        let mut cx = Context::from_waker(&waker);
        let res = Pin::new(&mut p.stream).poll_next(&mut cx);
        st.transitions += 1;
        if let Poll::Ready(_) = &res {
            if let Some(f) = p.last_pending.take() {
                if !f.woken() {
                    return Err(viol(
                        "C14",
                        step,
                        "ready-without-wake/probe",
                        "the always-drained batched subscriber is Ready but the waker of its previous Pending poll was never woken".to_string(),
                    ));
                }
                st.mark("pending_then_woken_then_ready");
            }
        }
        match res {
            Poll::Pending => {
                p.last_pending = Some(flag);
                Ok(None)
            }
            Poll::Ready(Some(b)) => Ok(Some(b)),
            Poll::Ready(None) => Err(viol("C08", step, "ended-while-alive/probe", "a stream ended while the vector is alive".to_string())),
        }
    }

    /// Called right after a single library call that may broadcast: learn the
    /// message from the probe, check the notify rule and the wake-ups (C14).
    /// `notify` = (may broadcast, must broadcast).
    fn after_call(&mut self, notify: (bool, bool), pre: &[Kid], direct: bool, st: &mut Stats) -> Result<(), Violation> {
        let step = self.step;
        let prop = self.cfg.prop;
        if self.probe.is_none() {
            return Ok(());
        }
        let Some(batch) = self.poll_probe(st)? else {
            if notify.1 {
                return Err(viol(
                    prop,
                    step,
                    "no-diff-for-effective-call",
                    format!("a call that changed the vector from {:?} to {:?} published nothing", pre, self.vec),
                ));
            }
            return Ok(());
        };
        if batch.is_empty() {
            return Err(viol(content_prop(prop), step, "empty-batch", "the always-drained batched subscriber received an empty batch".to_string()));
        }
        if !notify.0 {
            return Err(viol(
                if direct { "C05" } else { "C07" },
                step,
                if direct { "diff-for-documented-noop" } else { "publication-without-recorded-change" },
                format!("{:?} was published although nothing may be (vector {:?} -> {:?})", batch, pre, self.vec),
            ));
        }
        let p = self.probe.as_mut().unwrap();
        let before = kids(&p.replica);
        for d in &batch {
            if matches!(d, VectorDiff::Reset { .. }) {
                return Err(viol("C06", step, "reset-without-lag/probe", "the always-drained subscriber received a Reset".to_string()));
            }
            if let Err(e) = apply_checked(d, &mut p.replica) {
                return Err(viol(prop, step, format!("inapplicable/{}", diff_kind(d)), format!("probe: {e}")));
            }
        }
        let post = kids(&p.replica);
        if post != self.vec {
            return Err(viol(
                prop,
                step,
                "message-does-not-reach-post-state",
                format!("published {:?}: takes {:?} to {:?}, but the vector went from {:?} to {:?}", batch, before, post, pre, self.vec),
            ));
        }
        if direct && batch.len() != 1 {
            return Err(viol("C05", step, "direct-call-not-one-diff", format!("a direct call contributed {} diffs: {:?}", batch.len(), batch)));
        }
        if batch.len() > 1 {
            st.hit("multi_diff_message");
        }
        self.msgs.push(Msg { diffs: batch, post });
        // one call, one message
        if self.poll_probe(st)?.is_some() {
            return Err(viol(prop, step, "two-messages-for-one-call", "one call produced more than one message".to_string()));
        }
        // C14, immediate form: the broadcast itself must have woken every
        // subscriber whose last poll was Pending.
        for (i, s) in self.subs.iter().enumerate() {
            if let Some(f) = &s.last_pending {
                if s.stream.is_some() && !f.woken() {
                    return Err(viol(
                        "C14",
                        step,
                        format!("not-woken-by-update/{:?}", s.kind),
                        format!("sub{i}: its last poll was Pending, a message was broadcast, its waker was not woken"),
                    ));
                }
                st.mark("woken_by_update");
            }
        }
        Ok(())
    }

    /// Inside an open transaction nothing may reach any subscriber.
    fn txn_quiet(&mut self, st: &mut Stats) -> Result<(), Violation> {
        if self.probe.is_some() {
            if let Some(b) = self.poll_probe(st)? {
                return Err(viol("C07", self.step, "leak-before-commit", format!("{:?} was published while the transaction is still open", b)));
            }
        }
        Ok(())
    }

    fn drain(&mut self, i: usize, st: &mut Stats) -> Result<Polled, Violation> {
        for _ in 0..5000 {
            match self.poll_sub(i, st)? {
                Polled::Item => continue,
                other => return Ok(other),
            }
        }
        Err(viol(self.cfg.prop, self.step, "never-quiescent", format!("sub{i} still yields items after 5000 polls")))
    }

    /// After every token: eager subscribers are drained.
    fn after_token(&mut self, st: &mut Stats) -> Result<(), Violation> {
        for i in 0..self.subs.len() {
            if self.subs[i].policy == Policy::Eager && self.subs[i].stream.is_some() && !self.subs[i].ended {
                self.drain(i, st)?;
            }
        }
        if E::TRACKED && el::reg_has_errors() {
            return Err(viol("C20", self.step, "tracked-misuse", el::reg_errors().join("; ")));
        }
        Ok(())
    }

    fn sub_tok(&mut self, t: Tok, st: &mut Stats) -> Result<(), Violation> {
        match t {
            Tok::Poll(i) => {
                self.poll_sub(i as usize, st)?;
            }
            Tok::Drain(i) => {
                self.drain(i as usize, st)?;
            }
            Tok::DropSub(i) => {
                let s = &mut self.subs[i as usize];
                if s.mid > 0 {
                    st.hit("stream_dropped_mid_batch");
                }
                s.stream = None;
                s.last_pending = None;
            }
            _ => unreachable!(),
        }
        Ok(())
    }
}

impl<E: El> World<E> {
    fn new(cfg: &Cfg) -> Self {
        let mut next_id = 0u16;
        let mut vec = Vec::new();
        let init: Vector<E> = (0..cfg.init_len).map(|i| E::mk(0, i as u16)).collect();
        // capacity 16 is what `new()` / `From<Vector>` give: use those constructors there
        let ob = if cfg.capacity == 16 && cfg.init_len > 0 {
            ObservableVector::<E>::from(init)
        } else {
            let mut ob = if cfg.capacity == 16 { ObservableVector::<E>::new() } else { ObservableVector::<E>::with_capacity(cfg.capacity) };
            if cfg.init_len > 0 {
                ob.append(init);
            }
            ob
        };
        op_effect(Op::Append(cfg.init_len), &mut vec, &mut next_id);
        let mut r = Rest { cfg: cfg.clone(), vec, next_id, alive: true, subs: Vec::new(), probe: None, msgs: Vec::new(), step: 0, _p: PhantomData };
        if cfg.probe {
            let (values, stream) = ob.subscribe().into_values_and_batched_stream();
            r.probe = Some(Probe { stream, replica: values.into_iter().collect(), last_pending: None });
        }
        for (k, (kind, pol)) in cfg.pre_subs.iter().enumerate() {
            let (s, _) = SubR::new(*kind, *pol, &ob, k, 0);
            r.subs.push(s);
        }
        World { ob: Some(ob), r }
    }

    fn exec(&mut self, toks: &[Tok], st: &mut Stats) -> Result<(), Violation> {
        // initial state: everybody is up to date
        self.r.step = 0;
        if self.r.probe.is_some() {
            if let Some(b) = self.r.poll_probe(st)? {
                return Err(viol(self.r.cfg.prop, 0, "unexpected-item/probe", format!("fresh subscriber received {:?}", b)));
            }
        }
        self.r.after_token(st)?;
        let mut i = 0;
        while i < toks.len() {
            self.r.step = i;
            st.transitions += 1;
            match toks[i] {
                Tok::TxnBegin => {
                    i = self.run_txn(toks, i, st)?;
                    continue;
                }
                Tok::Txn2 => {
                    const SYN: [Tok; 4] = [Tok::TxnBegin, Tok::Op(Op::PushBack), Tok::Op(Op::PushBack), Tok::TxnCommit];
                    self.run_txn(&SYN, 0, st)?;
                    self.r.step = i;
                    i += 1;
                    continue;
                }
                Tok::Op(op) => {
                    let (op, times) = match op {
                        Op::BurstSet0(n) => (Op::Set(0), n as usize),
                        Op::BurstPushBack(n) => (Op::PushBack, n as usize),
                        other => (other, 1),
                    };
                    for _ in 0..times {
                        let pre = self.r.vec.clone();
                        let ob = self.ob.as_mut().unwrap();
                        let notify = match apply_op(ob, op, &mut self.r.vec, &mut self.r.next_id, i, st) {
                            Ok(n) => n,
                            Err(v) if self.r.cfg.prop == "C05" && v.sig.starts_with("contents/") && self.r.probe.is_some() => {
                                // The vector did not do what a plain vector does (C17's
                                // statement). C05's own question is still open: do the
                                // published diffs reproduce what the vector really became?
                                let real = kids_im(self.ob.as_ref().unwrap());
                                let mut replay: Vec<E> = Vec::new();
                                if let Some(p) = self.r.probe.as_ref() {
                                    replay = p.replica.clone();
                                }
                                if let Some(batch) = self.r.poll_probe(st)? {
                                    let mut ok = true;
                                    for d in &batch {
                                        ok &= apply_checked(d, &mut replay).is_ok();
                                    }
                                    if !ok || kids(&replay) != real {
                                        return Err(viol(
                                            "C05",
                                            i,
                                            "message-does-not-reach-post-state",
                                            format!("published {:?}: takes {:?} to {:?}, but the vector went from {:?} to {:?} ({})", batch, pre, kids(&replay), pre, real, v.detail),
                                        ));
                                    }
                                }
                                return Err(v);
                            }
                            Err(v) => return Err(v),
                        };
                        // direct no-ops are documented: clear on empty included
                        let notify = if matches!(op, Op::Clear) && pre.is_empty() { (false, false) } else { notify };
                        self.r.after_call(notify, &pre, true, st)?;
                    }
                    if times > 1 {
                        st.hit("burst_of_single_updates");
                    }
                }
                Tok::Oob(op) => {
                    let pre = self.r.vec.clone();
                    let ob = self.ob.as_mut().unwrap();
                    apply_oob(ob, op, &pre, &mut self.r.next_id, i, st)?;
                    self.r.after_call((false, false), &pre, true, st).map_err(|mut v| {
                        v.prop = "C17";
                        v.sig = format!("oob-notified/{}", op_name(op));
                        v
                    })?;
                }
                Tok::Subscribe(kind) => {
                    let k = self.r.subs.len();
                    let (s, snap) = SubR::new(kind, self.r.cfg.new_sub_policy, self.ob.as_ref().unwrap(), k, self.r.msgs.len());
                    if snap != self.r.vec {
                        return Err(viol("C05", i, "snapshot-differs", format!("subscribe() snapshot {:?} != contents {:?}", snap, self.r.vec)));
                    }
                    self.r.subs.push(s);
                }
                Tok::DropVec => self.drop_vec(st)?,
                t @ (Tok::Poll(_) | Tok::Drain(_) | Tok::DropSub(_)) => self.r.sub_tok(t, st)?,
                Tok::TxnCommit | Tok::TxnDrop | Tok::TxnRollback => unreachable!("transaction token outside a transaction"),
            }
            self.r.after_token(st)?;
            i += 1;
        }
        self.r.step = toks.len();
        self.epilogue(st)
    }

    fn drop_vec(&mut self, st: &mut Stats) -> Result<(), Violation> {
        let ob = self.ob.take().unwrap();
        let got = kids_im(&ob);
        if got != self.r.vec {
            return Err(viol("C17", self.r.step, "contents/final", format!("contents {:?} != model {:?}", got, self.r.vec)));
        }
        // turning the vector back into a plain one drops the sender as well
        let inner = ob.into_inner();
        if kids_im(&inner) != self.r.vec {
            return Err(viol("C17", self.r.step, "contents/into_inner", format!("into_inner() gives {:?}, model {:?}", kids_im(&inner), self.r.vec)));
        }
        drop(inner);
        self.r.alive = false;
        self.r.probe = None;
        for (i, s) in self.r.subs.iter().enumerate() {
            if let Some(f) = &s.last_pending {
                if s.stream.is_some() && !f.woken() {
                    return Err(viol("C08", self.r.step, format!("not-woken-by-drop/{:?}", s.kind), format!("sub{i} was Pending and was not woken when the vector was dropped")));
                }
                st.mark("woken_by_drop");
            }
            if s.stream.is_some() && self.r.cfg.probe {
                let pending = self.r.msgs.len() - s.next_seq - if s.mid > 0 { 1 } else { 0 };
                if pending == 0 && s.mid == 0 {
                    st.hit("dropped_with_subscriber_up_to_date");
                } else if s.mid > 0 {
                    st.hit("dropped_with_subscriber_mid_batch");
                } else if pending <= self.r.cfg.capacity {
                    st.hit("dropped_with_subscriber_behind_within_capacity");
                } else {
                    st.hit("dropped_with_subscriber_behind_beyond_capacity");
                }
            }
        }
        Ok(())
    }

    /// Bracketed transaction: tokens from `toks[start]` (the `TxnBegin`) up to
    /// the matching commit/drop (or the end of the sequence, which abandons
    /// it). Returns the index of the first token after the transaction.
    fn run_txn(&mut self, toks: &[Tok], start: usize, st: &mut Stats) -> Result<usize, Violation> {
        let World { ob, r } = self;
        let ob = ob.as_mut().unwrap();
        let pre = r.vec.clone();
        let mut work = pre.clone();
        let mut recorded = Recorded::None;
        let mut ops_since_begin = 0usize;
        let mut txn = ob.transaction();
        r.txn_quiet(st)?;
        r.after_token(st)?;
        let mut i = start + 1;
        loop {
            if i >= toks.len() {
                // the sequence ends inside the transaction: abandon it
                drop(txn);
                if ops_since_begin > 0 {
                    st.mark("txn_abandoned_after_ops");
                }
                r.step = toks.len();
                r.after_call((false, false), &pre, false, st)?;
                let got = kids_im(ob);
                if got != pre {
                    return Err(viol("C07", r.step, "abandoned-txn-changed-contents", format!("contents {:?}, before the transaction {:?}", got, pre)));
                }
                return Ok(i);
            }
            r.step = i;
            st.transitions += 1;
            match toks[i] {
                Tok::Op(op0) => {
                  let (op, times) = match op0 {
                      Op::BurstSet0(n) => (Op::Set(0), n as usize),
                      Op::BurstPushBack(n) => (Op::PushBack, n as usize),
                      other => (other, 1),
                  };
                  for _ in 0..times {
                    let n = apply_op(&mut txn, op, &mut work, &mut r.next_id, i, st).map_err(|mut v| {
                        if v.sig.starts_with("contents/") {
                            // the transaction's own view of its pending changes:
                            // C07 names it, C17 states it for every mutator
                            v.prop = if r.cfg.prop == "C07" { "C07" } else { "C17" };
                            v.sig = format!("txn-deref/{}", op_name(op));
                        }
                        v
                    })?;
                    ops_since_begin += 1;
                    if n.1 {
                        recorded = Recorded::Some;
                    } else if n.0 && recorded == Recorded::None {
                        recorded = Recorded::Maybe;
                    }
                    r.txn_quiet(st)?;
                  }
                }
                Tok::Oob(op) => {
                    apply_oob(&mut txn, op, &work, &mut r.next_id, i, st)?;
                    r.txn_quiet(st)?;
                }
                Tok::TxnRollback => {
                    txn.rollback();
                    work = pre.clone();
                    recorded = Recorded::None;
                    if ops_since_begin > 0 {
                        st.mark("txn_rolled_back_after_ops");
                    }
                    let got = txn.t_contents();
                    if got != pre {
                        return Err(viol("C07", i, "rollback-incomplete", format!("after rollback the transaction shows {:?}, expected {:?}", got, pre)));
                    }
                    r.txn_quiet(st)?;
                }
                Tok::TxnCommit => {
                    txn.commit();
                    r.vec = work.clone();
                    let notify = match recorded {
                        Recorded::None => (false, false),
                        Recorded::Maybe => (true, false),
                        Recorded::Some => (true, work != pre),
                    };
                    let got = kids_im(ob);
                    if got != work {
                        return Err(viol("C07", i, "commit-contents", format!("after commit contents {:?}, the transaction showed {:?}", got, work)));
                    }
                    r.after_call(notify, &pre, false, st)?;
                    if ops_since_begin > 0 {
                        st.mark("txn_committed_after_ops");
                    } else {
                        st.hit("txn_committed_empty");
                    }
                    r.after_token(st)?;
                    return Ok(i + 1);
                }
                Tok::TxnDrop => {
                    drop(txn);
                    if ops_since_begin > 0 {
                        st.mark("txn_abandoned_after_ops");
                    }
                    r.after_call((false, false), &pre, false, st)?;
                    let got = kids_im(ob);
                    if got != pre {
                        return Err(viol("C07", i, "abandoned-txn-changed-contents", format!("contents {:?}, before the transaction {:?}", got, pre)));
                    }
                    r.after_token(st)?;
                    return Ok(i + 1);
                }
                t @ (Tok::Poll(_) | Tok::Drain(_) | Tok::DropSub(_)) => r.sub_tok(t, st)?,
                Tok::TxnBegin | Tok::Txn2 | Tok::Subscribe(_) | Tok::DropVec => unreachable!("token not enabled inside a transaction"),
            }
            r.after_token(st)?;
            i += 1;
        }
    }

    fn epilogue(&mut self, st: &mut Stats) -> Result<(), Violation> {
        if self.r.alive {
            for i in 0..self.r.subs.len() {
                if self.r.subs[i].stream.is_some() {
                    let r = self.r.drain(i, st)?;
                    debug_assert_eq!(r, Polled::Pending);
                }
            }
            if self.r.cfg.epilogue_drop {
                self.drop_vec(st)?;
            } else {
                let got = kids_im(self.ob.as_ref().unwrap());
                if got != self.r.vec {
                    return Err(viol("C17", self.r.step, "contents/final", format!("contents {:?} != model {:?}", got, self.r.vec)));
                }
            }
        }
        if !self.r.alive {
            for i in 0..self.r.subs.len() {
                if self.r.subs[i].stream.is_some() {
                    let r = self.r.drain(i, st)?;
                    if r != Polled::End {
                        return Err(viol("C08", self.r.step, "not-ended-after-drop", format!("sub{i}: {:?} after the vector was dropped", r)));
                    }
                }
            }
        }
        Ok(())
    }
}

// ---------------------------------------------------------------------------
// Traversal sub-harness (C17, second half): every decision sequence
// keep / set / remove / set-then-remove / stop over every element.

#[derive(Clone, Copy, Debug, PartialEq, Eq, Hash)]
enum Dec {
    Keep,
    Set,
    Remove,
    SetRemove,
    Stop,
}

#[derive(Clone, Copy, Debug, PartialEq, Eq)]
enum Via {
    ForEach,
    Entries,
}

#[derive(Clone, Debug)]
struct TravCfg {
    init_len: u8,
    via: Via,
    in_txn: bool,
}

struct TravH<E: El>(PhantomData<E>);

#[derive(Clone, Hash)]
struct TravModel {
    remaining: u8,
    stopped: bool,
}

impl<E: El> Harness for TravH<E> {
    type Cfg = TravCfg;
    type Tok = Dec;
    type Model = TravModel;
    fn init(&self, cfg: &TravCfg) -> TravModel {
        TravModel { remaining: cfg.init_len, stopped: false }
    }
    fn enabled(&self, cfg: &TravCfg, m: &TravModel, out: &mut Vec<Dec>) {
        if m.remaining > 0 && !m.stopped {
            out.extend([Dec::Keep, Dec::Set, Dec::Remove, Dec::SetRemove]);
            if cfg.via == Via::Entries {
                out.push(Dec::Stop);
            }
        }
    }
    fn step(&self, _cfg: &TravCfg, m: &mut TravModel, t: &Dec) {
        m.remaining -= 1;
        if *t == Dec::Stop {
            m.stopped = true;
        }
    }
    fn panic_prop(&self, _cfg: &TravCfg) -> &'static str {
        "C17"
    }
    fn run(&self, cfg: &TravCfg, decs: &[Dec], st: &mut Stats) -> Result<(), Violation> {
        if E::TRACKED {
            el::reg_reset();
        }
        let r = trav_run::<E>(cfg, decs, st);
        if E::TRACKED && r.is_ok() {
            let errs = el::reg_errors();
            if !errs.is_empty() {
                return Err(viol("C20", decs.len(), "tracked-misuse", errs.join("; ")));
            }
            if el::reg_live() != 0 {
                return Err(viol("C20", decs.len(), "leak", format!("{} element instances still alive", el::reg_live())));
            }
            st.mark("tracked_sequences_balanced");
        }
        r
    }
}

fn trav_run<E: El>(cfg: &TravCfg, decs: &[Dec], st: &mut Stats) -> Result<(), Violation> {
    let n = cfg.init_len as usize;
    let mut ob = ObservableVector::<E>::with_capacity(64);
    ob.append((0..n).map(|i| E::mk(0, i as u16)).collect());
    let (values, mut stream) = ob.subscribe().into_values_and_batched_stream();
    let mut replica: Vec<E> = values.into_iter().collect();
    // model
    let mut mv: Vec<Kid> = (0..n).map(|i| (0u8, i as u16)).collect();
    let mut visited: Vec<Kid> = Vec::new();
    let mut expect_visit: Vec<Kid> = Vec::new();
    {
        // expected visiting order: the original elements in order, up to Stop
        for (k, e) in mv.iter().enumerate() {
            expect_visit.push(*e);
            if decs.get(k) == Some(&Dec::Stop) {
                break;
            }
        }
    }
    let mut next_id = 100u16;
    let mut pos = 0usize; // model cursor
    let mut k = 0usize; // decision index
    let mut err: Option<Violation> = None;
    // One visit: returns false to stop (entries only).
    macro_rules! visit {
        ($entry:ident, $E:ident) => {{
            let dec = decs.get(k).copied().unwrap_or(Dec::Keep);
            let idx = $E::index(&$entry);
            let seen = (*$entry).kid();
            visited.push(seen);
            st.transitions += 1;
            if err.is_none() && (idx != pos || mv.get(pos) != Some(&seen)) {
                err = Some(viol(
                    "C17",
                    k,
                    "traversal-position",
                    format!("visit {k}: entry reports index {idx} and value {:?}; expected index {pos} and value {:?}", seen, mv.get(pos)),
                ));
            }
            let mut go_on = true;
            if err.is_none() {
                match dec {
                    Dec::Keep => {
                        drop($entry);
                        pos += 1;
                    }
                    Dec::Set => {
                        let old = $E::set(&mut $entry, E::mk(0, next_id)).kid();
                        if old != seen || $E::index(&$entry) != pos || (*$entry).kid() != (0, next_id) {
                            err = Some(viol("C17", k, "traversal-set", format!("visit {k}: set returned {:?} (expected {:?}) or the entry moved", old, seen)));
                        }
                        mv[pos] = (0, next_id);
                        next_id += 1;
                        drop($entry);
                        pos += 1;
                    }
                    Dec::Remove => {
                        let old = $E::remove($entry).kid();
                        if old != seen {
                            err = Some(viol("C17", k, "traversal-remove", format!("visit {k}: remove returned {:?}, expected {:?}", old, seen)));
                        }
                        mv.remove(pos);
                        st.mark("traversal_removed_then_continued");
                    }
                    Dec::SetRemove => {
                        let old = $E::set(&mut $entry, E::mk(0, next_id)).kid();
                        let old2 = $E::remove($entry).kid();
                        if old != seen || old2 != (0, next_id) {
                            err = Some(viol("C17", k, "traversal-set-remove", format!("visit {k}: set returned {:?}, remove returned {:?}", old, old2)));
                        }
                        next_id += 1;
                        mv.remove(pos);
                        st.mark("traversal_removed_then_continued");
                    }
                    Dec::Stop => {
                        drop($entry);
                        go_on = false;
                        st.mark("traversal_stopped_early");
                    }
                }
            } else {
                drop($entry);
            }
            k += 1;
            go_on
        }};
    }
    if cfg.in_txn {
        let mut txn = ob.transaction();
        match cfg.via {
            Via::ForEach => txn.for_each(|mut entry| {
                let _ = visit!(entry, ObservableVectorTransactionEntry);
            }),
            Via::Entries => {
                let mut it = txn.entries();
                while let Some(mut entry) = it.next() {
                    if !visit!(entry, ObservableVectorTransactionEntry) {
                        break;
                    }
                }
            }
        }
        let got = kids_im(&txn);
        if err.is_none() && got != mv {
            err = Some(viol("C17", k, "traversal-contents", format!("after the traversal the transaction shows {:?}, expected {:?}", got, mv)));
        }
        txn.commit();
    } else {
        match cfg.via {
            Via::ForEach => ob.for_each(|mut entry| {
                let _ = visit!(entry, ObservableVectorEntry);
            }),
            Via::Entries => {
                let mut it = ob.entries();
                while let Some(mut entry) = it.next() {
                    if !visit!(entry, ObservableVectorEntry) {
                        break;
                    }
                }
            }
        }
    }
    if let Some(e) = err {
        return Err(e);
    }
    if visited != expect_visit {
        return Err(viol("C17", k, "traversal-visits", format!("visited {:?}, expected each element once in order: {:?}", visited, expect_visit)));
    }
    let got = kids_im(&ob);
    if got != mv {
        return Err(viol("C17", k, "traversal-contents", format!("after the traversal contents are {:?}, expected {:?}", got, mv)));
    }
    // emitted diffs rebuild the same contents
    let (_f, waker) = flag_waker();
    let mut cx = Context::from_waker(&waker);
    loop {
        match Pin::new(&mut stream).poll_next(&mut cx) {
            Poll::Ready(Some(batch)) => {
                for d in &batch {
                    if let Err(e) = apply_checked(d, &mut replica) {
                        return Err(viol("C17", k, "traversal-diffs", format!("inapplicable diff emitted by the traversal: {e}")));
                    }
                }
            }
            Poll::Ready(None) => return Err(viol("C08", k, "ended-while-alive/Batched", "stream ended while the vector is alive".to_string())),
            Poll::Pending => break,
        }
    }
    if kids(&replica) != mv {
        return Err(viol("C17", k, "traversal-diffs", format!("diffs emitted by the traversal rebuild {:?}, contents are {:?}", kids(&replica), mv)));
    }
    if decs.len() == n && n > 0 {
        st.mark("traversal_full_decision_vector");
    }
    Ok(())
}

// ---------------------------------------------------------------------------
// Sweeps

fn base(prop: &'static str) -> Cfg {
    Cfg {
        init_len: 0,
        capacity: 16,
        probe: true,
        pre_subs: vec![],
        new_sub_policy: Policy::Manual,
        alphabet: Alphabet::Full,
        txn: false,
        txn_abort: false,
        txn2: false,
        bursts: vec![],
        oob: false,
        subscribe: false,
        drop_sub: false,
        drop_vec: false,
        epilogue_drop: false,
        txn_body: false,
        max_len: 4,
        max_subs: 2,
        prop,
    }
}

fn with_lens(c: Cfg, lens: std::ops::RangeInclusive<u8>) -> Vec<Cfg> {
    lens.map(|l| Cfg { init_len: l, ..c.clone() }).collect()
}

struct Plan {
    name: &'static str,
    cfgs: Vec<Cfg>,
    depth: usize,
}

/// Vectors of 66 and 131 items (imbl's tree mode), a plain and a batched
/// subscriber, transactions; capacity 16 and, for the lag path (`Reset` of a
/// large vector), capacity 1.
fn tree_vec_cfgs(prop: &'static str, oob: bool) -> Vec<Cfg> {
    let mut cfgs = Vec::new();
    for len in [66u8, 131] {
        for capacity in [16usize, 1] {
            cfgs.push(Cfg {
                init_len: len,
                max_len: len + 73,
                capacity,
                alphabet: Alphabet::Tree,
                pre_subs: vec![(Kind::Plain, Policy::Manual), (Kind::Batched, Policy::Manual)],
                txn: true,
                txn_abort: oob,
                oob,
                ..base(prop)
            });
        }
    }
    cfgs
}

fn plans(prop: &str, tier: &str) -> Vec<Plan> {
    let q = tier == "quick";
    let mut out = Vec::new();
    let sub_sets: Vec<Vec<(Kind, Policy)>> = vec![
        vec![(Kind::Plain, Policy::Manual)],
        vec![(Kind::Batched, Policy::Manual)],
        vec![(Kind::Plain, Policy::Eager), (Kind::Batched, Policy::Manual)],
        vec![(Kind::Plain, Policy::Manual), (Kind::Plain, Policy::Manual)],
    ];
    match prop {
        "C05" => {
            // within capacity: capacity 16 >= depth
            let mut cfgs = Vec::new();
            for ps in &sub_sets {
                cfgs.extend(with_lens(Cfg { pre_subs: ps.clone(), txn: true, ..base("C05") }, 0..=3));
            }
            // subscription points as tokens
            cfgs.extend(with_lens(Cfg { subscribe: true, txn: true, ..base("C05") }, 0..=2));
            out.push(Plan { name: "c05-full", cfgs, depth: if q { 4 } else { 5 } });
            let mut cfgs = Vec::new();
            for ps in &sub_sets {
                cfgs.extend(with_lens(Cfg { pre_subs: ps.clone(), txn: true, alphabet: Alphabet::Reduced, subscribe: true, max_subs: 3, ..base("C05") }, 0..=2));
            }
            // ... and the vector going away while diffs are still undelivered
            for ps in &sub_sets {
                cfgs.extend(with_lens(Cfg { pre_subs: ps.clone(), txn: true, alphabet: Alphabet::Reduced, drop_vec: true, epilogue_drop: true, ..base("C05") }, 0..=1));
            }
            out.push(Plan { name: "c05-reduced-deep", cfgs, depth: if q { 6 } else { 7 } });
            out.push(Plan { name: "c05-tree", cfgs: tree_vec_cfgs("C05", false), depth: if q { 2 } else { 3 } });
            // whole transaction bodies with the full alphabet: begin, four operations, commit (both tiers;
            // VERIF_EXTRA_DEPTH deepens it)
            let mut cfgs = Vec::new();
            for ps in [vec![(Kind::Plain, Policy::Eager)], vec![(Kind::Batched, Policy::Eager)], vec![(Kind::Plain, Policy::Eager), (Kind::Batched, Policy::Eager)]] {
                cfgs.extend(with_lens(Cfg { pre_subs: ps, txn: true, txn_body: true, ..base("C05") }, 0..=3));
            }
            out.push(Plan { name: "c05-txn-bodies", cfgs, depth: 6 });
        }
        "C06" => {
            for (cap, dq, dt) in [(1usize, 6usize, 7usize), (2, 6, 7), (3, 7, 8)] {
                let mut cfgs = Vec::new();
                for ps in &sub_sets {
                    cfgs.extend(with_lens(Cfg { capacity: cap, pre_subs: ps.clone(), txn: true, alphabet: Alphabet::Reduced, ..base("C06") }, 0..=2));
                }
                cfgs.extend(with_lens(Cfg { capacity: cap, subscribe: true, txn: true, alphabet: Alphabet::Reduced, ..base("C06") }, 0..=1));
                out.push(Plan { name: match cap { 1 => "c06-cap1-reduced", 2 => "c06-cap2-reduced", _ => "c06-cap3-reduced" }, cfgs, depth: if q { dq } else { dt } });
            }
            for (cap, name) in [(1usize, "c06-cap1-full"), (2, "c06-cap2-full")] {
                let mut cfgs = Vec::new();
                for ps in &sub_sets[..3] {
                    cfgs.extend(with_lens(Cfg { capacity: cap, pre_subs: ps.clone(), txn: true, ..base("C06") }, 0..=3));
                }
                out.push(Plan { name, cfgs, depth: if q { 4 } else { 5 } });
            }
            // capacity larger than the history: no Reset may ever appear
            let mut cfgs = Vec::new();
            for ps in &sub_sets[..2] {
                cfgs.extend(with_lens(Cfg { capacity: 16, pre_subs: ps.clone(), txn: true, alphabet: Alphabet::Reduced, ..base("C06") }, 0..=2));
            }
            out.push(Plan { name: "c06-cap16-reduced", cfgs, depth: if q { 6 } else { 7 } });
            let mut cfgs = Vec::new();
            for cap in [16usize, 128] {
                for ps in &sub_sets[..2] {
                    cfgs.extend(with_lens(Cfg { capacity: cap, pre_subs: ps.clone(), txn: true, alphabet: Alphabet::Reduced, bursts: vec![34, 70], ..base("C06") }, 1..=1));
                }
            }
            out.push(Plan { name: "c06-bursts", cfgs, depth: if q { 3 } else { 4 } });
            out.push(Plan { name: "c06-tree", cfgs: tree_vec_cfgs("C06", false), depth: if q { 2 } else { 3 } });
        }
        "C07" => {
            let tsubs: Vec<Vec<(Kind, Policy)>> = vec![
                vec![(Kind::Batched, Policy::Eager)],
                vec![(Kind::Plain, Policy::Manual)],
                vec![(Kind::Batched, Policy::Manual), (Kind::Plain, Policy::Eager)],
            ];
            let mut cfgs = Vec::new();
            for cap in [16usize, 1] {
                for ps in &tsubs {
                    cfgs.extend(with_lens(Cfg { capacity: cap, pre_subs: ps.clone(), txn: true, txn_abort: true, drop_sub: true, ..base("C07") }, 0..=3));
                }
            }
            // without any subscriber (no probe): contents only
            cfgs.extend(with_lens(Cfg { probe: false, txn: true, txn_abort: true, ..base("C07") }, 0..=3));
            out.push(Plan { name: "c07-full", cfgs, depth: if q { 4 } else { 5 } });
            let mut cfgs = Vec::new();
            for cap in [16usize, 1] {
                for ps in &tsubs {
                    cfgs.extend(with_lens(
                        Cfg { capacity: cap, pre_subs: ps.clone(), txn: true, txn_abort: true, alphabet: Alphabet::Reduced, ..base("C07") },
                        0..=2,
                    ));
                }
            }
            out.push(Plan { name: "c07-reduced-deep", cfgs, depth: if q { 6 } else { 8 } });
            // whole transaction bodies with the full alphabet, ended by commit, drop or rollback at every point
            let mut cfgs = Vec::new();
            for ps in [vec![(Kind::Plain, Policy::Eager)], vec![(Kind::Batched, Policy::Eager)]] {
                cfgs.extend(with_lens(Cfg { pre_subs: ps, txn: true, txn_abort: true, txn_body: true, ..base("C07") }, 0..=3));
            }
            out.push(Plan { name: "c07-txn-bodies", cfgs, depth: 6 });
        }
        "C08" => {
            let mut cfgs = Vec::new();
            for cap in [1usize, 2, 16] {
                for ps in &sub_sets {
                    cfgs.extend(with_lens(
                        Cfg { capacity: cap, pre_subs: ps.clone(), txn: true, alphabet: Alphabet::Reduced, drop_vec: true, epilogue_drop: true, ..base("C08") },
                        0..=2,
                    ));
                }
            }
            out.push(Plan { name: "c08-reduced-deep", cfgs, depth: if q { 6 } else { 7 } });
            let mut cfgs = Vec::new();
            for cap in [1usize, 16] {
                for ps in &sub_sets[..3] {
                    cfgs.extend(with_lens(Cfg { capacity: cap, pre_subs: ps.clone(), txn: true, drop_vec: true, epilogue_drop: true, ..base("C08") }, 0..=3));
                }
            }
            out.push(Plan { name: "c08-full", cfgs, depth: if q { 3 } else { 4 } });
            // long runs of updates pending when the vector is dropped (capacity
            // above the run length: "behind within capacity" with many messages)
            let mut cfgs = Vec::new();
            for ps in &sub_sets[..2] {
                cfgs.extend(with_lens(
                    Cfg { capacity: 128, pre_subs: ps.clone(), txn: true, alphabet: Alphabet::Reduced, bursts: vec![34, 70], drop_vec: true, epilogue_drop: true, ..base("C08") },
                    1..=1,
                ));
            }
            out.push(Plan { name: "c08-bursts", cfgs, depth: if q { 3 } else { 4 } });
        }
        "C17" => {
            let mut cfgs = Vec::new();
            cfgs.extend(with_lens(Cfg { pre_subs: vec![(Kind::Plain, Policy::Eager)], txn: true, txn_abort: true, oob: true, ..base("C17") }, 0..=3));
            cfgs.extend(with_lens(Cfg { probe: false, txn: true, txn_abort: true, oob: true, ..base("C17") }, 0..=3));
            out.push(Plan { name: "c17-full", cfgs, depth: if q { 4 } else { 5 } });
            out.push(Plan { name: "c17-tree", cfgs: tree_vec_cfgs("C17", true), depth: if q { 2 } else { 3 } });
        }
        "C14" => {
            // wake-up oracles only matter with Manual subscribers that are
            // polled to Pending and polled again later.
            let mut cfgs = Vec::new();
            for cap in [1usize, 16] {
                for ps in &sub_sets {
                    cfgs.extend(with_lens(
                        Cfg { capacity: cap, pre_subs: ps.clone(), txn: true, txn_abort: true, alphabet: Alphabet::Reduced, drop_vec: true, epilogue_drop: true, ..base("C14") },
                        0..=1,
                    ));
                }
            }
            out.push(Plan { name: "c14-vec-reduced", cfgs, depth: if q { 5 } else { 7 } });
            let mut cfgs = Vec::new();
            for ps in &sub_sets[..2] {
                cfgs.extend(with_lens(Cfg { pre_subs: ps.clone(), txn: true, drop_vec: true, ..base("C14") }, 0..=2));
            }
            out.push(Plan { name: "c14-vec-full", cfgs, depth: if q { 3 } else { 4 } });
        }
        "C20" => {
            let mut cfgs = Vec::new();
            for cap in [1usize, 16] {
                for ps in &sub_sets {
                    cfgs.extend(with_lens(
                        Cfg {
                            capacity: cap,
                            pre_subs: ps.clone(),
                            txn: true,
                            txn_abort: true,
                            alphabet: Alphabet::Reduced,
                            drop_vec: true,
                            drop_sub: true,
                            epilogue_drop: cap == 1,
                            ..base("C20")
                        },
                        0..=2,
                    ));
                }
            }
            out.push(Plan { name: "c20-vec-reduced", cfgs, depth: if q { 5 } else { 6 } });
            // composite two-diff transaction: reaches "stream dropped mid-batch
            // with a further unreceived update" at a small depth
            let mut cfgs = Vec::new();
            for cap in [1usize, 16] {
                for ps in &sub_sets {
                    cfgs.extend(with_lens(
                        Cfg { capacity: cap, pre_subs: ps.clone(), txn2: true, alphabet: Alphabet::Reduced, drop_vec: true, drop_sub: true, epilogue_drop: cap == 1, ..base("C20") },
                        0..=1,
                    ));
                }
            }
            out.push(Plan { name: "c20-vec-txn2", cfgs, depth: if q { 5 } else { 6 } });
            // no always-drained subscriber: every receiver can disappear, also
            // in the middle of a transaction
            let mut cfgs = Vec::new();
            for ps in &sub_sets[..3] {
                cfgs.extend(with_lens(
                    Cfg { probe: false, pre_subs: ps.clone(), txn: true, txn_abort: true, txn2: true, alphabet: Alphabet::Reduced, drop_vec: true, drop_sub: true, ..base("C20") },
                    0..=1,
                ));
            }
            out.push(Plan { name: "c20-vec-all-receivers-may-go", cfgs, depth: if q { 5 } else { 6 } });
            let mut cfgs = Vec::new();
            for ps in &sub_sets[..3] {
                cfgs.extend(with_lens(Cfg { pre_subs: ps.clone(), txn: true, txn_abort: true, drop_sub: true, oob: true, ..base("C20") }, 0..=2));
            }
            out.push(Plan { name: "c20-vec-full", cfgs, depth: if q { 4 } else { 5 } });
            out.push(Plan { name: "c20-vec-tree", cfgs: tree_vec_cfgs("C20", true), depth: if q { 2 } else { 3 } });
        }
        _ => {}
    }
    out
}

fn trav_cfgs(max_len: u8) -> Vec<TravCfg> {
    let mut v = Vec::new();
    for init_len in 0..=max_len {
        for via in [Via::ForEach, Via::Entries] {
            for in_txn in [false, true] {
                v.push(TravCfg { init_len, via, in_txn });
            }
        }
    }
    v
}

fn run_all<E: El>(cli: &ev::Cli) -> i32 {
    let t0 = Instant::now();
    let opts = ev::opts_for(cli);
    let h = VecH::<E>(PhantomData);
    let th = TravH::<E>(PhantomData);
    let trav_len = if cli.tier == "quick" { 4 } else { 5 };
    let with_trav = cli.prop == "C17" || cli.prop == "C20";
    if let Some(path) = &cli.replay {
        let rf = ev::read_replay(path);
        if rf.sweep == "c17-traversal" {
            let sw = Sweep { name: rf.sweep.clone(), h: &th, cfgs: trav_cfgs(trav_len), depth: 0 };
            return ev::replay_sweep(&sw, &rf);
        }
        for p in plans(&rf.prop, &rf.tier) {
            if p.name == rf.sweep {
                let sw = Sweep { name: p.name.to_string(), h: &h, cfgs: p.cfgs, depth: p.depth };
                return ev::replay_sweep(&sw, &rf);
            }
        }
        eprintln!("MACHINERY: unknown sweep {} in replay file", rf.sweep);
        return 2;
    }
    let mut acc = Acc::default();
    let mut bm = None;
    let mut bounds = Vec::new();
    for p in plans(&cli.prop, &cli.tier) {
        bounds.push(json!({"sweep": p.name, "depth": explore::depth_bound(p.depth), "configurations": p.cfgs.len()}));
        let sw = Sweep { name: p.name.to_string(), h: &h, cfgs: p.cfgs, depth: p.depth };
        explore::explore(&sw, &opts, &mut acc, &mut bm);
        if !acc.violations.is_empty() || acc.cap_hit {
            break;
        }
    }
    if with_trav && acc.violations.is_empty() && !acc.cap_hit {
        let sw = Sweep { name: "c17-traversal".into(), h: &th, cfgs: trav_cfgs(trav_len), depth: trav_len as usize };
        bounds.push(json!({"sweep": "c17-traversal", "depth": trav_len, "configurations": sw.cfgs.len()}));
        explore::explore(&sw, &opts, &mut acc, &mut bm);
    }
    let require: Vec<&'static str> = match cli.prop.as_str() {
        "C05" => vec!["message_replayed_to_post_state", "batched_concatenated_several_messages", "plain_stream_mid_batch", "noop_pop_on_empty", "noop_truncate", "noop_clear_on_empty", "txn_committed_after_ops"],
        "C06" => vec!["reset_delivered", "lag_exactly_at_capacity_no_reset", "reset_at_ring_plus_one", "batched_concatenated_several_messages", "pending_checks"],
        "C07" => vec!["txn_abandoned_after_ops", "txn_rolled_back_after_ops", "txn_committed_after_ops", "txn_committed_empty", "multi_diff_message", "reset_delivered"],
        "C08" => vec![
            "ended_on_final_state",
            "woken_by_drop",
            "dropped_with_subscriber_up_to_date",
            "dropped_with_subscriber_mid_batch",
            "dropped_with_subscriber_behind_within_capacity",
            "dropped_with_subscriber_behind_beyond_capacity",
        ],
        "C17" => vec!["oob_panics_checked", "traversal_removed_then_continued", "traversal_stopped_early", "traversal_full_decision_vector"],
        "C14" => vec!["pending_then_woken_then_ready", "woken_by_update", "woken_by_drop"],
        "C20" => vec!["tracked_sequences_balanced", "reset_delivered", "stream_dropped_mid_batch", "plain_stream_mid_batch"],
        _ => vec![],
    };
    let f = Finish {
        cli,
        engine: "seqmc",
        bin: "mc-vec",
        rule: "every token sequence (vector mutators with every in-range argument, entry operations, bracketed transactions, subscribe/drop/poll/drain tokens) up to the depth bound from every swept configuration (initial length, capacity, subscriber set and polling policy), executed on fresh real objects with the oracle evaluated after every token; a sequence is non-trivial when the property's interesting event occurred in it (see interesting_events)",
        assumptions: vec![
            "tokio's broadcast channel, imbl and the std allocator are trusted".into(),
            "message boundaries are learned from an always-drained batched subscriber of the library itself (one item per broadcasting call)".into(),
            "bounds: vector length <= 4 (66 and 131 in the *-tree sweeps, up to 200 with burst tokens), <= 3 subscribers, depth as listed per sweep".into(),
            "single-threaded: sender and receivers are driven from one thread".into(),
        ],
        require,
        bounds: json!(bounds),
        t0,
    };
    ev::finish(f, &mut acc, &opts)
}

fn main() {
    explore::install_quiet_panic_hook();
    let cli = ev::parse_cli();
    let code = if cli.prop == "C20" { run_all::<Tracked>(&cli) } else { run_all::<Plain>(&cli) };
    std::process::exit(code);
}
