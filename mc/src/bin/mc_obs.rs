//! Harness `obs`/`aobs`: Observable, SharedObservable, WeakObservable,
//! Subscriber and guards of both lock flavours, driven from one thread by one
//! token language against one reference model. Serves C01, C02, C03 (history
//! halves), the guard-exclusion facts of C04, C16, C19 and part of C20.
//!
//! See /verif/DESIGN.md section 4.

use std::{
    fmt,
    future::Future,
    marker::PhantomData,
    pin::{pin, Pin},
    sync::Arc,
    task::{Context, Poll, Waker},
    time::Instant,
};

use eyeball::{AsyncLock, Observable, ObservableReadGuard, ObservableWriteGuard, SharedObservable, Subscriber, WeakObservable};
use futures_core::Stream;
use mc::{
    el::{self, El, Tracked},
    ev::{self, Finish},
    explore::{self, Acc, Harness, Stats, Sweep, Violation},
    wk::{flag_waker, Flag},
};
use serde_json::json;

include!("obs_parts/val.rs");
include!("obs_parts/backend.rs");
include!("obs_parts/harness.rs");
include!("obs_parts/aguard.rs");

fn base(prop: &'static str) -> Cfg {
    Cfg {
        start_unique: true,
        use_default: false,
        init_code: 0,
        pre_subs: vec![],
        max_subs: 2,
        max_handles: 2,
        max_weaks: 1,
        guards: false,
        full_setters: true,
        handle_ops: true,
        shared_waker: false,
        prop,
    }
}

fn starts(c: Cfg) -> Vec<Cfg> {
    let mut v = Vec::new();
    for start_unique in [true, false] {
        for pre in [vec![], vec![false], vec![true], vec![false, true]] {
            v.push(Cfg { start_unique, pre_subs: pre, ..c.clone() });
        }
    }
    v.push(Cfg { start_unique: true, use_default: true, pre_subs: vec![false], ..c.clone() });
    v.push(Cfg { start_unique: false, use_default: true, pre_subs: vec![false], init_code: 2, ..c.clone() });
    v.push(Cfg { start_unique: false, init_code: 1, pre_subs: vec![false], ..c });
    v
}

struct Plan {
    name: &'static str,
    cfgs: Vec<Cfg>,
    depth: usize,
}

fn plans(prop: &'static str, sweep_prop: &str, tier: &str) -> Vec<Plan> {
    let q = tier == "quick";
    // the property's own thorough sweeps go one token deeper where that is
    // affordable; C16 re-runs them on the async flavour at the regular depth
    let own = prop == sweep_prop;
    let mut out = Vec::new();
    match sweep_prop {
        "C01" => {
            out.push(Plan { name: "c01-values", cfgs: starts(Cfg { handle_ops: false, ..base(prop) }), depth: if q { 4 } else { 5 } });
            out.push(Plan { name: "c01-with-handles-and-guards", cfgs: starts(Cfg { guards: true, max_subs: 2, ..base(prop) }), depth: if q { 3 } else if own { 5 } else { 4 } });
            // all subscribers polled from one task (one waker for every poll)
            out.push(Plan { name: "c01-same-task", cfgs: starts(Cfg { handle_ops: false, full_setters: false, max_subs: 3, shared_waker: true, ..base(prop) }), depth: if q { 4 } else if own { 6 } else { 5 } });
        }
        "C02" => {
            out.push(Plan { name: "c02-wakes", cfgs: starts(Cfg { full_setters: false, max_subs: 3, ..base(prop) }), depth: if q { 4 } else { 5 } });
            out.push(Plan { name: "c02-wakes-all-setters", cfgs: starts(Cfg { max_subs: 2, handle_ops: false, guards: true, ..base(prop) }), depth: if q { 3 } else if own { 5 } else { 4 } });
            out.push(Plan { name: "c02-wakes-same-task", cfgs: starts(Cfg { full_setters: false, max_subs: 3, shared_waker: true, ..base(prop) }), depth: if q { 4 } else { 5 } });
        }
        "C03" => {
            out.push(Plan { name: "c03-handles", cfgs: starts(Cfg { full_setters: false, max_handles: 3, max_weaks: 2, ..base(prop) }), depth: if q { 4 } else if own { 6 } else { 5 } });
        }
        "C04" => {
            out.push(Plan { name: "c04-guards", cfgs: starts(Cfg { full_setters: false, guards: true, ..base(prop) }), depth: if q { 4 } else if own { 6 } else { 5 } });
        }
        "C19" => {
            out.push(Plan { name: "c19-counts", cfgs: starts(Cfg { full_setters: false, max_subs: 3, max_handles: 3, max_weaks: 2, ..base(prop) }), depth: if q { 4 } else { 5 } });
        }
        "C20" => {
            out.push(Plan { name: "c20-values", cfgs: starts(Cfg { guards: true, ..base(prop) }), depth: if q { 4 } else { 5 } });
        }
        _ => {}
    }
    out
}

fn run_plans<B: Backend>(cli: &ev::Cli, prop: &'static str, sweep_props: &[&str], acc: &mut Acc, bm: &mut Option<explore::BitmapHolder>, bounds: &mut Vec<serde_json::Value>, opts: &explore::Opts) {
    let h = ObsH::<B>(PhantomData);
    for sp in sweep_props {
        for p in plans(prop, sp, &cli.tier) {
            if !acc.violations.is_empty() || acc.cap_hit {
                return;
            }
            let name = format!("{}-{}", p.name, B::NAME);
            bounds.push(json!({"sweep": name, "depth": explore::depth_bound(p.depth), "configurations": p.cfgs.len(), "flavour": B::NAME}));
            let sw = Sweep { name, h: &h, cfgs: p.cfgs, depth: p.depth };
            explore::explore(&sw, opts, acc, bm);
        }
    }
}

fn replay<B: Backend>(rf: &ev::ReplayFile, prop: &'static str, sweep_props: &[&str]) -> Option<i32> {
    let h = ObsH::<B>(PhantomData);
    for sp in sweep_props {
        for p in plans(prop, sp, &rf.tier) {
            let name = format!("{}-{}", p.name, B::NAME);
            if name == rf.sweep {
                let sw = Sweep { name, h: &h, cfgs: p.cfgs, depth: p.depth };
                return Some(ev::replay_sweep(&sw, rf));
            }
        }
    }
    None
}

fn aguard_plans(tier: &str) -> Vec<(&'static str, Vec<ACfg>, usize)> {
    let q = tier == "quick";
    vec![
        ("c16-guards-across-tasks", vec![ACfg { nsubs: 1, max_tasks: 3, only_woken: false, small: false, cancel_focus: false }, ACfg { nsubs: 2, max_tasks: 3, only_woken: true, small: false, cancel_focus: false }], if q { 4 } else { 5 }),
        // cancelled next() / next_ref() futures whose subscriber lives on
        ("c16-cancelled-subscriber-futures", vec![ACfg { nsubs: 1, max_tasks: 3, only_woken: false, small: false, cancel_focus: true }], if q { 7 } else { 8 }),
        ("c16-guards-across-tasks-deep", vec![ACfg { nsubs: 1, max_tasks: 4, only_woken: false, small: true, cancel_focus: false }, ACfg { nsubs: 1, max_tasks: 4, only_woken: true, small: true, cancel_focus: false }], if q { 6 } else { 7 }),
    ]
}

fn static_prop(p: &str) -> &'static str {
    match p {
        "C01" => "C01",
        "C02" => "C02",
        "C03" => "C03",
        "C04" => "C04",
        "C16" => "C16",
        "C19" => "C19",
        "C20" => "C20",
        _ => "C01",
    }
}

fn main() {
    explore::install_quiet_panic_hook();
    let cli = ev::parse_cli();
    let t0 = Instant::now();
    let opts = ev::opts_for(&cli);
    // which sweeps, on which flavours
    let (prop, sync_sweeps, async_sweeps): (&'static str, Vec<&str>, Vec<&str>) = match cli.prop.as_str() {
        "C16" => ("C16", vec![], vec!["C01", "C02", "C03", "C04"]),
        "C19" => ("C19", vec!["C19"], vec!["C19"]),
        "C20" => ("C20", vec!["C20"], vec!["C20"]),
        p => {
            let sp = static_prop(p);
            (sp, vec![sp], vec![])
        }
    };
    if let Some(path) = &cli.replay {
        let rf = ev::read_replay(path);
        for (name, cfgs, depth) in aguard_plans(&rf.tier) {
            if name == rf.sweep {
                let sw = Sweep { name: name.to_string(), h: &AGuardH, cfgs, depth };
                std::process::exit(ev::replay_sweep(&sw, &rf));
            }
        }
        let prop = static_prop(&rf.prop);
        let all = ["C01", "C02", "C03", "C04", "C19", "C20"];
        let r = if prop == "C20" {
            replay::<SyncB<TV>>(&rf, prop, &all).or_else(|| replay::<AsyncB<TV>>(&rf, prop, &all))
        } else {
            replay::<SyncB<PV>>(&rf, prop, &all).or_else(|| replay::<AsyncB<PV>>(&rf, prop, &all))
        };
        std::process::exit(r.unwrap_or_else(|| {
            eprintln!("MACHINERY: unknown sweep {} in replay file", rf.sweep);
            2
        }));
    }
    let mut acc = Acc::default();
    let mut bm = None;
    let mut bounds = Vec::new();
    if prop == "C20" {
        run_plans::<SyncB<TV>>(&cli, prop, &sync_sweeps, &mut acc, &mut bm, &mut bounds, &opts);
        run_plans::<AsyncB<TV>>(&cli, prop, &async_sweeps, &mut acc, &mut bm, &mut bounds, &opts);
    } else {
        run_plans::<SyncB<PV>>(&cli, prop, &sync_sweeps, &mut acc, &mut bm, &mut bounds, &opts);
        run_plans::<AsyncB<PV>>(&cli, prop, &async_sweeps, &mut acc, &mut bm, &mut bounds, &opts);
    }
    if prop == "C16" && acc.violations.is_empty() && !acc.cap_hit {
        for (name, cfgs, depth) in aguard_plans(&cli.tier) {
            bounds.push(json!({"sweep": name, "depth": explore::depth_bound(depth), "configurations": cfgs.len(), "flavour": "async"}));
            let sw = Sweep { name: name.to_string(), h: &AGuardH, cfgs, depth };
            explore::explore(&sw, &opts, &mut acc, &mut bm);
        }
    }
    let require: Vec<&'static str> = match prop {
        "C01" => vec!["skipped_intermediate_values", "pending_polls", "ready_polls", "conditional_setter_declined", "hash_equal_but_different_declined", "update_if_mutated_without_notifying", "setter_through_write_guard"],
        "C02" => vec!["pending_woken_by_update", "pending_woken_by_close", "several_pending_woken_at_once"],
        "C03" => vec!["closed_by_last_owner", "dropped_a_clone_but_not_the_last", "upgrade_succeeded", "upgrade_failed_after_close", "into_shared_with_subscribers", "get_after_end_checked", "none_polls"],
        "C04" => vec!["exclusion_probed_under_guard", "setter_through_write_guard"],
        "C16" => vec!["skipped_intermediate_values", "pending_woken_by_update", "pending_woken_by_close", "closed_by_last_owner", "upgrade_failed_after_close", "exclusion_probed_under_guard",
            "task_waits_for_the_lock", "subscriber_polled_under_write_guard", "subscriber_ready_after_waiting", "task_completed_after_waiting", "pending_task_cancelled"],
        "C19" => vec!["counts_with_clones_subscribers_and_weaks", "unique_counts_with_several_subscribers"],
        "C20" => vec!["tracked_sequences_balanced", "into_shared_with_subscribers", "setter_through_write_guard"],
        _ => vec![],
    };
    let f = Finish {
        cli: &cli,
        engine: "seqmc",
        bin: "mc-obs",
        rule: "every token sequence (all setters with all values on the unique Observable, on SharedObservable clones and through write guards; subscribe / subscribe_reset; per subscriber poll as Stream, as next(), as next_ref(), next_now, next_ref_now, get, read, reset, clone, clone_reset, drop; clone / drop / downgrade / upgrade / into_shared of handles; bracketed read and write guards with try_read / try_write probes inside) up to the depth bound from every swept start state, executed on fresh real objects next to a value/epoch/owner model; after every token every subscriber is probed through a reset clone (end of stream iff no owner) and all count functions are compared; non-trivial = an interesting event of the property occurred",
        assumptions: vec![
            "single-threaded: thread interleavings are engine B's business (sync flavour) and out of reach for the async flavour".into(),
            "values from a 3-element domain in which two values are different but hash-equal; DefaultHasher trusted to be deterministic".into(),
            "bounds: <= 3 subscribers, <= 3 handles, <= 2 weak references, depth as listed per sweep".into(),
            "the waker checked is the one of the subscriber's last Pending poll (what the Future contract requires)".into(),
        ],
        require,
        bounds: json!(bounds),
        t0,
    };
    std::process::exit(ev::finish(f, &mut acc, &opts));
}
