//! Harness `adp`/`chain`: one to three stacked adapters (head, tail, skip with
//! static / dynamic / dynamic-with-initial limits, filter, filter_map, sort,
//! sort_by, sort_by_key) over a real ObservableVector subscriber (plain or
//! batched), with transparent taps below every stage. Serves C09-C15 and, with
//! `Tracked` elements, part of C20.
//!
//! See /verif/DESIGN.md sections 3 and 5.

use std::{
    cell::RefCell,
    collections::VecDeque,
    marker::PhantomData,
    pin::Pin,
    rc::Rc,
    sync::Arc,
    task::{Context, Poll, Waker},
    time::Instant,
};

use eyeball::Observable;
use eyeball_im::{ObservableVector, VectorDiff};
use eyeball_im_util::vector::{VectorDiffContainer, VectorObserver, VectorObserverExt, VectorSubscriberExt};
use futures_core::Stream;
use imbl::Vector;
use mc::{
    el::{self, El, Kid, Plain, Tracked},
    ev::{self, Finish},
    explore::{self, Acc, Harness, Stats, Sweep, Violation},
    rep::{apply_checked, diff_kind, kids, kids_im},
    wk::{flag_waker, Flag},
};
use serde_json::json;

include!("adp_parts/tokens.rs");
include!("adp_parts/streams.rs");
include!("adp_parts/spec.rs");
include!("adp_parts/world.rs");
include!("adp_parts/sweeps.rs");
