// Tokens, model and execution for the observable harness.

#[derive(Clone, Copy, Debug, PartialEq, Eq, Hash)]
enum SubOp {
    PollStream,
    PollNext,
    PollNextRef,
    NextNow,
    NextRefNow,
    Get,
    Read,
    Reset,
    Clone,
    CloneReset,
    Drop,
}

const SUB_OPS: [SubOp; 11] = [
    SubOp::PollStream,
    SubOp::PollNext,
    SubOp::PollNextRef,
    SubOp::NextNow,
    SubOp::NextRefNow,
    SubOp::Get,
    SubOp::Read,
    SubOp::Reset,
    SubOp::Clone,
    SubOp::CloneReset,
    SubOp::Drop,
];

#[derive(Clone, Copy, Debug, PartialEq, Eq, Hash)]
enum Tok {
    U(Setter),
    USubscribe,
    USubscribeReset,
    UGet,
    UIntoShared,
    UDrop,
    S(u8, Setter),
    SSubscribe(u8),
    SSubscribeReset(u8),
    SGet(u8),
    SClone(u8),
    SDrop(u8),
    SDowngrade(u8),
    WUpgrade(u8),
    WDrop(u8),
    WClone(u8),
    Sub(u8, SubOp),
    /// write guard on shared handle h: bracket
    WBegin(u8),
    G(Setter),
    GEnd,
    /// read guards: from a handle, from a subscriber's read(), from next_ref_now()
    RBeginH(u8),
    RBeginSub(u8),
    RBeginSubNextRefNow(u8),
    TryRead(u8),
    TryWrite(u8),
}

#[derive(Clone, Copy, Debug, PartialEq, Eq, Hash)]
enum Guard {
    None,
    Write(u8),
    ReadH(u8),
    ReadSub(u8),
}

#[derive(Clone, Debug)]
struct Cfg {
    start_unique: bool,
    use_default: bool,
    init_code: u8,
    /// subscribers created before the first token: false = subscribe, true = subscribe_reset
    pre_subs: Vec<bool>,
    max_subs: u8,
    max_handles: u8,
    max_weaks: u8,
    guards: bool,
    /// full setter menu on the first handle (else Set/Update only)
    full_setters: bool,
    handle_ops: bool,
    /// every poll of the run uses the same waker (all subscribers live in one
    /// task) instead of a fresh one per poll
    shared_waker: bool,
    prop: &'static str,
}

#[derive(Clone, Hash, Debug)]
struct Model {
    value: u8,
    epoch: u32,
    unique: bool,
    shared: Vec<bool>,
    weaks: Vec<bool>,
    /// None = dropped; Some(seen)
    subs: Vec<Option<Option<u32>>>,
    closed: bool,
    guard: Guard,
}

impl Model {
    fn owners(&self) -> usize {
        self.unique as usize + self.shared.iter().filter(|a| **a).count()
    }
    fn live_subs(&self) -> usize {
        self.subs.iter().filter(|s| s.is_some()).count()
    }
    fn live_weaks(&self) -> usize {
        self.weaks.iter().filter(|a| **a).count()
    }
    /// Apply a setter; returns (expected return value, notified).
    fn setter(&mut self, s: Setter) -> (SetRet, bool) {
        let old = self.value;
        let (ret, changed, notified) = match s {
            Setter::Set(c) => (SetRet::Prev(old), Some(c), true),
            Setter::SetIfNotEq(c) => {
                if old != c {
                    (SetRet::Opt(Some(old)), Some(c), true)
                } else {
                    (SetRet::Opt(None), None, false)
                }
            }
            Setter::SetIfHashNotEq(c) => {
                if !hash_eq(old, c) {
                    (SetRet::Opt(Some(old)), Some(c), true)
                } else {
                    (SetRet::Opt(None), None, false)
                }
            }
            Setter::Take => (SetRet::Prev(old), Some(0), true),
            Setter::Update => (SetRet::Unit, Some(next_code(old)), true),
            Setter::UpdateIf { mutate, ret } => (SetRet::Unit, mutate.then(|| next_code(old)), ret),
        };
        if let Some(c) = changed {
            self.value = c;
        }
        if notified {
            self.epoch += 1;
        }
        (ret, notified)
    }
    /// Expected answer of a poll of subscriber s; marks it observed.
    fn poll(&mut self, s: usize) -> Poll<Option<u8>> {
        if self.closed {
            return Poll::Ready(None);
        }
        let seen = self.subs[s].unwrap();
        if seen != Some(self.epoch) {
            self.subs[s] = Some(Some(self.epoch));
            Poll::Ready(Some(self.value))
        } else {
            Poll::Pending
        }
    }
    fn after_owner_change(&mut self) -> bool {
        if !self.closed && self.owners() == 0 {
            self.closed = true;
            true
        } else {
            false
        }
    }
}

fn setters(full: bool) -> Vec<Setter> {
    let mut v = vec![Setter::Set(0), Setter::Set(1), Setter::Set(2), Setter::Update];
    if full {
        for c in 0..3 {
            v.push(Setter::SetIfNotEq(c));
        }
        for c in 0..3 {
            v.push(Setter::SetIfHashNotEq(c));
        }
        v.push(Setter::Take);
        for mutate in [false, true] {
            for ret in [false, true] {
                v.push(Setter::UpdateIf { mutate, ret });
            }
        }
    }
    v
}

struct ObsH<B: Backend>(PhantomData<fn() -> B>);

impl<B: Backend> ObsH<B> {
    fn model_step(cfg: &Cfg, m: &mut Model, t: &Tok) {
        let _ = cfg;
        match *t {
            Tok::U(s) | Tok::S(_, s) | Tok::G(s) => {
                m.setter(s);
            }
            Tok::USubscribe | Tok::SSubscribe(_) => m.subs.push(Some(Some(m.epoch))),
            Tok::USubscribeReset | Tok::SSubscribeReset(_) => m.subs.push(Some(None)),
            Tok::UGet | Tok::SGet(_) | Tok::TryRead(_) | Tok::TryWrite(_) => {}
            Tok::UIntoShared => {
                m.unique = false;
                m.shared.push(true);
            }
            Tok::UDrop => {
                m.unique = false;
                m.after_owner_change();
            }
            Tok::SClone(_) => m.shared.push(true),
            Tok::SDrop(h) => {
                m.shared[h as usize] = false;
                m.after_owner_change();
            }
            Tok::SDowngrade(_) => m.weaks.push(true),
            Tok::WUpgrade(_) => {
                if m.shared.iter().any(|a| *a) {
                    m.shared.push(true);
                }
            }
            Tok::WDrop(w) => m.weaks[w as usize] = false,
            Tok::WClone(_) => m.weaks.push(true),
            Tok::Sub(s, op) => {
                let s = s as usize;
                match op {
                    SubOp::PollStream | SubOp::PollNext | SubOp::PollNextRef => {
                        let _ = m.poll(s);
                    }
                    SubOp::NextNow | SubOp::NextRefNow => m.subs[s] = Some(Some(m.epoch)),
                    SubOp::Get | SubOp::Read => {}
                    SubOp::Reset => m.subs[s] = Some(None),
                    SubOp::Clone => {
                        let c = m.subs[s];
                        m.subs.push(c)
                    }
                    SubOp::CloneReset => m.subs.push(Some(None)),
                    SubOp::Drop => m.subs[s] = None,
                }
            }
            Tok::WBegin(h) => m.guard = Guard::Write(h),
            Tok::RBeginH(h) => m.guard = Guard::ReadH(h),
            Tok::RBeginSub(s) => m.guard = Guard::ReadSub(s),
            Tok::RBeginSubNextRefNow(s) => {
                m.subs[s as usize] = Some(Some(m.epoch));
                m.guard = Guard::ReadSub(s);
            }
            Tok::GEnd => m.guard = Guard::None,
        }
    }
}

impl<B: Backend> Harness for ObsH<B> {
    type Cfg = Cfg;
    type Tok = Tok;
    type Model = Model;

    fn init(&self, cfg: &Cfg) -> Model {
        Model {
            value: if cfg.use_default { 0 } else { cfg.init_code },
            epoch: 1,
            unique: cfg.start_unique,
            shared: if cfg.start_unique { vec![] } else { vec![true] },
            weaks: vec![],
            subs: cfg.pre_subs.iter().map(|reset| Some(if *reset { None } else { Some(1) })).collect(),
            closed: false,
            guard: Guard::None,
        }
    }

    fn enabled(&self, cfg: &Cfg, m: &Model, out: &mut Vec<Tok>) {
        let live_handles: Vec<usize> = m.shared.iter().enumerate().filter(|(_, a)| **a).map(|(i, _)| i).collect();
        match m.guard {
            Guard::Write(_) => {
                for s in setters(cfg.full_setters) {
                    out.push(Tok::G(s));
                }
                for &h in &live_handles {
                    out.push(Tok::TryRead(h as u8));
                    out.push(Tok::TryWrite(h as u8));
                }
                out.push(Tok::GEnd);
                return;
            }
            Guard::ReadH(_) | Guard::ReadSub(_) => {
                for &h in &live_handles {
                    out.push(Tok::TryRead(h as u8));
                    out.push(Tok::TryWrite(h as u8));
                }
                for (s, st) in m.subs.iter().enumerate() {
                    if st.is_some() && m.guard != Guard::ReadSub(s as u8) {
                        for op in [SubOp::PollStream, SubOp::PollNextRef, SubOp::NextNow, SubOp::Get, SubOp::Read] {
                            out.push(Tok::Sub(s as u8, op));
                        }
                    }
                }
                out.push(Tok::GEnd);
                return;
            }
            Guard::None => {}
        }
        let nsubs = m.live_subs() as u8;
        if m.unique {
            for s in setters(cfg.full_setters) {
                out.push(Tok::U(s));
            }
            if nsubs < cfg.max_subs {
                out.push(Tok::USubscribe);
                out.push(Tok::USubscribeReset);
            }
            out.push(Tok::UGet);
            if cfg.handle_ops {
                out.push(Tok::UIntoShared);
                out.push(Tok::UDrop);
            }
        }
        for (k, &h) in live_handles.iter().enumerate() {
            let hh = h as u8;
            if k == 0 {
                for s in setters(cfg.full_setters) {
                    out.push(Tok::S(hh, s));
                }
            } else {
                out.push(Tok::S(hh, Setter::Set(1)));
                out.push(Tok::S(hh, Setter::Update));
            }
            if nsubs < cfg.max_subs {
                out.push(Tok::SSubscribe(hh));
                out.push(Tok::SSubscribeReset(hh));
            }
            out.push(Tok::SGet(hh));
            if cfg.handle_ops {
                if (live_handles.len() as u8) < cfg.max_handles {
                    out.push(Tok::SClone(hh));
                }
                out.push(Tok::SDrop(hh));
                if (m.live_weaks() as u8) < cfg.max_weaks {
                    out.push(Tok::SDowngrade(hh));
                }
            }
            if cfg.guards {
                out.push(Tok::WBegin(hh));
                out.push(Tok::RBeginH(hh));
                out.push(Tok::TryRead(hh));
                out.push(Tok::TryWrite(hh));
            }
        }
        if cfg.handle_ops {
            for (w, a) in m.weaks.iter().enumerate() {
                if *a {
                    if (live_handles.len() as u8) < cfg.max_handles {
                        out.push(Tok::WUpgrade(w as u8));
                    }
                    out.push(Tok::WDrop(w as u8));
                    if (m.live_weaks() as u8) < cfg.max_weaks {
                        out.push(Tok::WClone(w as u8));
                    }
                }
            }
        }
        for (s, st) in m.subs.iter().enumerate() {
            if st.is_some() {
                for op in SUB_OPS {
                    if matches!(op, SubOp::Clone | SubOp::CloneReset) && nsubs >= cfg.max_subs {
                        continue;
                    }
                    out.push(Tok::Sub(s as u8, op));
                }
                if cfg.guards {
                    out.push(Tok::RBeginSub(s as u8));
                    out.push(Tok::RBeginSubNextRefNow(s as u8));
                }
            }
        }
    }

    fn step(&self, cfg: &Cfg, m: &mut Model, t: &Tok) {
        Self::model_step(cfg, m, t)
    }

    fn run(&self, cfg: &Cfg, toks: &[Tok], st: &mut Stats) -> Result<(), Violation> {
        if B::V::TRACKED {
            el::reg_reset();
        }
        let r = {
            let mut w = World::<B>::new(cfg, self.init(cfg));
            let r = w.exec(toks, st);
            drop(w);
            r
        };
        if B::V::TRACKED && r.is_ok() {
            let errs = el::reg_errors();
            if !errs.is_empty() {
                return Err(Violation { prop: "C20", step: toks.len(), sig: "tracked-misuse".into(), detail: errs.join("; ") });
            }
            if el::reg_live() != 0 {
                return Err(Violation { prop: "C20", step: toks.len(), sig: "leak".into(), detail: format!("{} value instances still alive after everything was dropped", el::reg_live()) });
            }
            st.mark("tracked_sequences_balanced");
        }
        r
    }

    fn panic_prop(&self, cfg: &Cfg) -> &'static str {
        cfg.prop
    }
}

// ---------------------------------------------------------------------------

struct SubR<B: Backend> {
    sub: B::Sub,
    /// flag of the waker given to the last Pending poll and its wake count at
    /// that moment (with a shared waker the flag is the task's)
    last_pending: Option<(Arc<Flag>, usize)>,
}

struct World<B: Backend> {
    cfg: Cfg,
    unique: Option<B::Ob>,
    shared: Vec<Option<B::Sh>>,
    weaks: Vec<Option<B::Wk>>,
    subs: Vec<Option<SubR<B>>>,
    /// handles obtained from an upgrade() the model did not expect (C19 runs)
    extra: Vec<B::Sh>,
    /// the one task all subscribers are polled from (Cfg::shared_waker)
    task: Option<(Arc<Flag>, Waker)>,
    m: Model,
    step: usize,
}

/// Objects moved out of the world while a guard borrows them.
enum Held<'a, B: Backend> {
    Nothing,
    Handle(usize, &'a B::Sh),
}

fn viol(prop: &'static str, step: usize, sig: impl Into<String>, detail: impl Into<String>) -> Violation {
    Violation { prop, step, sig: sig.into(), detail: detail.into() }
}

impl<B: Backend> World<B> {
    /// Property blamed: the async flavour answers for all of C01-C03 under C16.
    fn p(&self, sync_prop: &'static str) -> &'static str {
        if B::ASYNC && sync_prop != "C19" && sync_prop != "C20" {
            "C16"
        } else {
            sync_prop
        }
    }

    fn new(cfg: &Cfg, m: Model) -> Self {
        let mut w = World { cfg: cfg.clone(), unique: None, shared: vec![], weaks: vec![], subs: vec![], extra: vec![], task: if cfg.shared_waker { Some(flag_waker()) } else { None }, m, step: 0 };
        if cfg.start_unique {
            let o = if cfg.use_default { B::ob_default() } else { B::ob_new(B::V::mk(cfg.init_code)) };
            for reset in &cfg.pre_subs {
                let s = if *reset { B::ob_subscribe_reset(&o) } else { B::ob_subscribe(&o) };
                w.subs.push(Some(SubR { sub: s, last_pending: None }));
            }
            w.unique = Some(o);
        } else {
            let o = if cfg.use_default { B::sh_default() } else { B::sh_new(B::V::mk(cfg.init_code)) };
            for reset in &cfg.pre_subs {
                let s = if *reset { B::sh_subscribe_reset(&o) } else { B::sh_subscribe(&o) };
                w.subs.push(Some(SubR { sub: s, last_pending: None }));
            }
            w.shared.push(Some(o));
        }
        w
    }

    fn handle<'a>(&'a self, h: usize, held: &Held<'a, B>) -> &'a B::Sh {
        match held {
            Held::Handle(i, r) if *i == h => r,
            _ => self.shared[h].as_ref().expect("handle is live"),
        }
    }

    /// C02: every subscriber whose last poll was Pending has been woken.
    fn check_wakes(&self, why: &str, st: &mut Stats) -> Result<(), Violation> {
        let mut n = 0;
        for (i, s) in self.subs.iter().enumerate() {
            if let Some(s) = s {
                if let Some((f, base)) = &s.last_pending {
                    if f.count() <= *base {
                        return Err(viol(
                            self.p("C02"),
                            self.step,
                            format!("pending-subscriber-not-woken/{why}"),
                            format!("subscriber {i}: its last poll returned Pending; {why} happened; the waker of that poll was not woken"),
                        ));
                    }
                    n += 1;
                }
            }
        }
        if n >= 1 {
            st.mark(if why == "close" { "pending_woken_by_close" } else { "pending_woken_by_update" });
        }
        if n >= 2 {
            st.mark("several_pending_woken_at_once");
        }
        Ok(())
    }

    /// C03 + C01: non-marking probe of every subscriber, C19: counts.
    fn quiescent_checks(&mut self, held: &Held<'_, B>, in_write_guard: bool, held_sub: Option<usize>, st: &mut Stats) -> Result<(), Violation> {
        let step = self.step;
        if !in_write_guard {
            for i in 0..self.subs.len() {
                if Some(i) == held_sub {
                    continue;
                }
                if let Some(s) = &self.subs[i] {
                    let mut probe = B::sub_clone_reset(&s.sub);
                    let (_f, w) = flag_waker();
                    let mut cx = Context::from_waker(&w);
                    let got = B::sub_poll_stream(&mut probe, &mut cx);
                    drop(probe);
                    let exp = if self.m.closed { Poll::Ready(None) } else { Poll::Ready(Some(self.m.value)) };
                    if got != exp {
                        let prop = if got == Poll::Ready(None) || exp == Poll::Ready(None) { "C03" } else { "C01" };
                        let prop = if self.cfg.prop == "C02" && got.is_pending() { "C02" } else { prop };
                        return Err(viol(
                            self.p(prop),
                            step,
                            if prop == "C03" { "end-of-stream-iff-no-owner" } else { "reset-clone-not-ready-with-latest" },
                            format!("a reset clone of subscriber {i} answers {:?}, expected {:?} ({} owner(s) alive)", got, exp, self.m.owners()),
                        ));
                    }
                    st.hit("end_of_stream_probes");
                    // after the end: get/read still return the last value
                    if self.m.closed {
                        let g = B::sub_get(&self.subs[i].as_ref().unwrap().sub);
                        if g != self.m.value {
                            return Err(viol(self.p("C03"), step, "get-after-end", format!("after the end get() returned {g}, last stored value {}", self.m.value)));
                        }
                        st.mark("get_after_end_checked");
                    }
                }
            }
        }
        // counts
        let live_handle = (0..self.m.shared.len()).find(|h| self.m.shared[*h]);
        let subs_alive = self.m.live_subs();
        let any_handle: Option<&B::Sh> = match live_handle {
            Some(h) => Some(self.handle(h, held)),
            None => self.extra.first(),
        };
        if let Some(ho) = any_handle {
            let c = B::sh_counts(ho);
            let owners = self.m.owners() + self.extra.len();
            let exp = Counts { observable: owners, subscriber: subs_alive, strong: owners + subs_alive, weak: self.m.live_weaks() };
            if c != exp {
                return Err(viol("C19", step, format!("counts/{}", B::NAME), format!("counts {:?}, expected {:?}", c, exp)));
            }
            st.hit("count_checks");
            if exp.weak > 0 && exp.subscriber > 0 && exp.observable > 1 {
                st.mark("counts_with_clones_subscribers_and_weaks");
            }
        }
        if let Some(o) = &self.unique {
            let c = B::ob_subscriber_count(o);
            if c != subs_alive {
                return Err(viol("C19", step, format!("counts/unique/{}", B::NAME), format!("Observable::subscriber_count() = {c}, {subs_alive} subscriber(s) alive")));
            }
            st.hit("count_checks");
            if subs_alive >= 2 {
                st.mark("unique_counts_with_several_subscribers");
            }
        }
        Ok(())
    }

    fn check_setter(&mut self, got: SetRet, s: Setter, st: &mut Stats) -> Result<bool, Violation> {
        let before = self.m.clone();
        let (exp, notified) = self.m.setter(s);
        if got != exp {
            return Err(viol(
                self.p("C01"),
                self.step,
                format!("setter-return/{:?}", std::mem::discriminant(&s)),
                format!("{:?} on value {} returned {:?}, expected {:?}", s, before.value, got, exp),
            ));
        }
        match s {
            Setter::SetIfNotEq(_) | Setter::SetIfHashNotEq(_) if !notified => st.mark("conditional_setter_declined"),
            Setter::UpdateIf { mutate: true, ret: false } => st.mark("update_if_mutated_without_notifying"),
            _ => {}
        }
        if matches!(s, Setter::SetIfHashNotEq(c) if before.value != c && hash_eq(before.value, c)) {
            st.mark("hash_equal_but_different_declined");
        }
        Ok(notified)
    }

    fn sub_op(&mut self, si: usize, op: SubOp, st: &mut Stats) -> Result<(), Violation> {
        let step = self.step;
        let value = self.m.value;
        match op {
            SubOp::PollStream | SubOp::PollNext | SubOp::PollNextRef => {
                let unobserved = match self.m.subs[si].unwrap() {
                    Some(seen) => self.m.epoch - seen,
                    None => 0,
                };
                let exp = self.m.poll(si);
                let (flag, w) = match &self.task {
                    Some((f, w)) => (f.clone(), w.clone()),
                    None => flag_waker(),
                };
                let base = flag.count();
                let mut cx = Context::from_waker(&w);
                let s = self.subs[si].as_mut().unwrap();
                let got = match op {
                    SubOp::PollStream => B::sub_poll_stream(&mut s.sub, &mut cx),
                    SubOp::PollNext => B::sub_poll_next(&mut s.sub, &mut cx),
                    _ => B::sub_poll_next_ref(&mut s.sub, &mut cx),
                };
                st.transitions += 1;
                if got != exp {
                    let prop = if got == Poll::Ready(None) || exp == Poll::Ready(None) { "C03" } else { "C01" };
                    // suspended although an update or the end of the stream is
                    // available: that is C02's statement as well
                    let prop = if self.cfg.prop == "C02" && got.is_pending() { "C02" } else { prop };
                    return Err(viol(
                        self.p(prop),
                        step,
                        format!("poll/{:?}", op),
                        format!("subscriber {si}: {:?} answered {:?}, expected {:?} (value {}, epoch {})", op, got, exp, value, self.m.epoch),
                    ));
                }
                let s = self.subs[si].as_mut().unwrap();
                match got {
                    Poll::Pending => {
                        s.last_pending = Some((flag, base));
                        st.mark("pending_polls");
                    }
                    Poll::Ready(Some(_)) => {
                        // (readiness can be the subscriber's own doing - reset,
                        // so "ready without a wake" is no violation here; the
                        // obligation is checked when the update happens)
                        s.last_pending = None;
                        if unobserved >= 2 {
                            st.mark("skipped_intermediate_values");
                        }
                        st.mark("ready_polls");
                    }
                    Poll::Ready(None) => {
                        s.last_pending = None;
                        st.mark("none_polls");
                    }
                }
            }
            SubOp::NextNow | SubOp::NextRefNow => {
                let s = self.subs[si].as_mut().unwrap();
                let got = if op == SubOp::NextNow { B::sub_next_now(&mut s.sub) } else { B::sub_next_ref_now(&mut s.sub) };
                if got != value {
                    return Err(viol(self.p("C01"), step, format!("value/{:?}", op), format!("subscriber {si}: {:?} returned {got}, latest value {value}", op)));
                }
                self.m.subs[si] = Some(Some(self.m.epoch));
            }
            SubOp::Get | SubOp::Read => {
                let s = self.subs[si].as_ref().unwrap();
                let got = if op == SubOp::Get { B::sub_get(&s.sub) } else { B::sub_read(&s.sub) };
                if got != value {
                    return Err(viol(self.p("C01"), step, format!("value/{:?}", op), format!("subscriber {si}: {:?} returned {got}, latest value {value}", op)));
                }
            }
            SubOp::Reset => {
                B::sub_reset(&mut self.subs[si].as_mut().unwrap().sub);
                self.m.subs[si] = Some(None);
            }
            SubOp::Clone => {
                let c = B::sub_clone(&self.subs[si].as_ref().unwrap().sub);
                self.subs.push(Some(SubR { sub: c, last_pending: None }));
                let seen = self.m.subs[si];
                self.m.subs.push(seen);
            }
            SubOp::CloneReset => {
                let c = B::sub_clone_reset(&self.subs[si].as_ref().unwrap().sub);
                self.subs.push(Some(SubR { sub: c, last_pending: None }));
                self.m.subs.push(Some(None));
            }
            SubOp::Drop => {
                self.subs[si] = None;
                self.m.subs[si] = None;
            }
        }
        Ok(())
    }

    fn try_probes(&mut self, t: Tok, held: &Held<'_, B>, st: &mut Stats) -> Result<(), Violation> {
        let (h, is_read) = match t {
            Tok::TryRead(h) => (h as usize, true),
            Tok::TryWrite(h) => (h as usize, false),
            _ => unreachable!(),
        };
        let ho = self.handle(h, held);
        let (got_ok, got_val) = if is_read {
            let r = B::sh_try_read(ho);
            (r.is_some(), r)
        } else {
            (B::sh_try_write(ho), None)
        };
        let exp_ok = match self.m.guard {
            Guard::None => true,
            Guard::Write(_) => false,
            Guard::ReadH(_) | Guard::ReadSub(_) => is_read,
        };
        if got_ok != exp_ok {
            return Err(viol(
                if B::ASYNC { "C16" } else { "C04" },
                self.step,
                format!("guard-exclusion/{}/{:?}", if is_read { "try_read" } else { "try_write" }, std::mem::discriminant(&self.m.guard)),
                format!("{:?} while {:?}: succeeded = {got_ok}, expected {exp_ok}", t, self.m.guard),
            ));
        }
        if let Some(v) = got_val {
            if v != self.m.value {
                return Err(viol(self.p("C01"), self.step, "value/try_read", format!("try_read saw {v}, latest value {}", self.m.value)));
            }
        }
        if self.m.guard != Guard::None {
            st.mark("exclusion_probed_under_guard");
        }
        Ok(())
    }

    /// Tokens that do not open a bracket.
    fn simple(&mut self, t: Tok, held: &Held<'_, B>, st: &mut Stats) -> Result<(), Violation> {
        let step = self.step;
        match t {
            Tok::U(s) => {
                let got = B::ob_apply(self.unique.as_mut().unwrap(), s);
                if self.check_setter(got, s, st)? {
                    self.check_wakes("update", st)?;
                }
                let g = B::ob_get(self.unique.as_ref().unwrap());
                if g != self.m.value {
                    return Err(viol(self.p("C01"), step, "value/deref", format!("Observable derefs to {g}, expected {}", self.m.value)));
                }
            }
            Tok::S(h, s) => {
                let got = B::sh_apply(self.handle(h as usize, held), s);
                if self.check_setter(got, s, st)? {
                    self.check_wakes("update", st)?;
                }
            }
            Tok::USubscribe | Tok::USubscribeReset => {
                let o = self.unique.as_ref().unwrap();
                let s = if t == Tok::USubscribe { B::ob_subscribe(o) } else { B::ob_subscribe_reset(o) };
                self.subs.push(Some(SubR { sub: s, last_pending: None }));
                self.m.subs.push(Some(if t == Tok::USubscribe { Some(self.m.epoch) } else { None }));
            }
            Tok::SSubscribe(h) | Tok::SSubscribeReset(h) => {
                let o = self.handle(h as usize, held);
                let reset = matches!(t, Tok::SSubscribeReset(_));
                let s = if reset { B::sh_subscribe_reset(o) } else { B::sh_subscribe(o) };
                self.subs.push(Some(SubR { sub: s, last_pending: None }));
                self.m.subs.push(Some(if reset { None } else { Some(self.m.epoch) }));
            }
            Tok::UGet => {
                let g = B::ob_get(self.unique.as_ref().unwrap());
                if g != self.m.value {
                    return Err(viol(self.p("C01"), step, "value/deref", format!("Observable derefs to {g}, expected {}", self.m.value)));
                }
            }
            Tok::SGet(h) => {
                let g = B::sh_get(self.handle(h as usize, held));
                if g != self.m.value {
                    return Err(viol(self.p("C01"), step, "value/get", format!("SharedObservable::get() = {g}, expected {}", self.m.value)));
                }
            }
            Tok::UIntoShared => {
                let o = self.unique.take().unwrap();
                self.shared.push(Some(B::ob_into_shared(o)));
                self.m.unique = false;
                self.m.shared.push(true);
                st.mark("into_shared");
                if self.m.live_subs() > 0 {
                    st.mark("into_shared_with_subscribers");
                }
            }
            Tok::UDrop => {
                self.unique = None;
                self.m.unique = false;
                if self.m.after_owner_change() {
                    self.check_wakes("close", st)?;
                    st.mark("closed_by_last_owner");
                }
            }
            Tok::SClone(h) => {
                let c = B::sh_clone(self.handle(h as usize, held));
                self.shared.push(Some(c));
                self.m.shared.push(true);
            }
            Tok::SDrop(h) => {
                self.shared[h as usize] = None;
                self.m.shared[h as usize] = false;
                if self.m.after_owner_change() {
                    self.check_wakes("close", st)?;
                    st.mark("closed_by_last_owner");
                } else {
                    st.mark("dropped_a_clone_but_not_the_last");
                }
            }
            Tok::SDowngrade(h) => {
                let w = B::sh_downgrade(self.handle(h as usize, held));
                self.weaks.push(Some(w));
                self.m.weaks.push(true);
            }
            Tok::WUpgrade(w) => {
                let got = B::wk_upgrade(self.weaks[w as usize].as_ref().unwrap());
                let exp = self.m.shared.iter().any(|a| *a);
                if got.is_some() != exp {
                    if self.cfg.prop == "C19" {
                        // C03 judges the answer; the count oracles go on with
                        // the handle population as it actually is.
                        if let Some(o) = got {
                            // not index-addressable by later tokens, but it is
                            // a live clone and must be counted
                            self.extra.push(o);
                        }
                        st.hit("upgrade_answer_taken_as_is_for_counts");
                        return Ok(());
                    }
                    return Err(viol(self.p("C03"), step, "upgrade", format!("upgrade() returned Some = {}, but {} owner(s) exist", got.is_some(), self.m.owners())));
                }
                if let Some(o) = got {
                    self.shared.push(Some(o));
                    self.m.shared.push(true);
                    st.mark("upgrade_succeeded");
                } else {
                    st.mark("upgrade_failed_after_close");
                }
            }
            Tok::WDrop(w) => {
                self.weaks[w as usize] = None;
                self.m.weaks[w as usize] = false;
            }
            Tok::WClone(w) => {
                let c = B::wk_clone(self.weaks[w as usize].as_ref().unwrap());
                self.weaks.push(Some(c));
                self.m.weaks.push(true);
            }
            Tok::Sub(s, op) => self.sub_op(s as usize, op, st)?,
            Tok::TryRead(_) | Tok::TryWrite(_) => self.try_probes(t, held, st)?,
            Tok::WBegin(_) | Tok::G(_) | Tok::GEnd | Tok::RBeginH(_) | Tok::RBeginSub(_) | Tok::RBeginSubNextRefNow(_) => unreachable!(),
        }
        Ok(())
    }

    fn exec(&mut self, toks: &[Tok], st: &mut Stats) -> Result<(), Violation> {
        self.step = 0;
        self.quiescent_checks(&Held::Nothing, false, None, st)?;
        let mut i = 0;
        while i < toks.len() {
            self.step = i;
            st.transitions += 1;
            match toks[i] {
                Tok::WBegin(h) => {
                    i = self.write_bracket(h as usize, toks, i, st)?;
                }
                Tok::RBeginH(h) => {
                    i = self.read_bracket_handle(h as usize, toks, i, st)?;
                }
                Tok::RBeginSub(s) | Tok::RBeginSubNextRefNow(s) => {
                    i = self.read_bracket_sub(s as usize, matches!(toks[i], Tok::RBeginSubNextRefNow(_)), toks, i, st)?;
                }
                t => {
                    self.simple(t, &Held::Nothing, st)?;
                    i += 1;
                }
            }
            self.quiescent_checks(&Held::Nothing, false, None, st)?;
        }
        self.step = toks.len();
        // Epilogue: drop every owner; every stream must end, get() keeps the
        // last value.
        self.unique = None;
        self.m.unique = false;
        for h in 0..self.shared.len() {
            self.shared[h] = None;
            self.m.shared[h] = false;
        }
        if self.m.after_owner_change() {
            self.check_wakes("close", st)?;
        }
        for s in 0..self.subs.len() {
            if self.subs[s].is_some() {
                self.sub_op(s, SubOp::PollStream, st)?;
                self.sub_op(s, SubOp::PollNext, st)?;
                self.sub_op(s, SubOp::Get, st)?;
            }
        }
        self.quiescent_checks(&Held::Nothing, false, None, st)?;
        Ok(())
    }

    fn write_bracket(&mut self, h: usize, toks: &[Tok], start: usize, st: &mut Stats) -> Result<usize, Violation> {
        let hobj = self.shared[h].take().unwrap();
        self.m.guard = Guard::Write(h as u8);
        let res = (|| -> Result<usize, Violation> {
            let mut g = B::sh_write(&hobj);
            let held = Held::Handle(h, &hobj);
            let mut i = start + 1;
            loop {
                let d = B::wg_deref(&g);
                if d != self.m.value {
                    return Err(viol(self.p("C01"), self.step, "value/write-guard-deref", format!("write guard derefs to {d}, expected {}", self.m.value)));
                }
                if i >= toks.len() {
                    return Ok(i);
                }
                self.step = i;
                st.transitions += 1;
                match toks[i] {
                    Tok::G(s) => {
                        let got = B::wg_apply(&mut g, s);
                        if self.check_setter(got, s, st)? {
                            self.check_wakes("update", st)?;
                        }
                        st.mark("setter_through_write_guard");
                    }
                    Tok::GEnd => {
                        return Ok(i + 1);
                    }
                    t @ (Tok::TryRead(_) | Tok::TryWrite(_)) => self.try_probes(t, &held, st)?,
                    _ => unreachable!(),
                }
                self.quiescent_checks(&held, true, None, st)?;
                i += 1;
            }
        })();
        self.shared[h] = Some(hobj);
        self.m.guard = Guard::None;
        res
    }

    fn read_bracket_handle(&mut self, h: usize, toks: &[Tok], start: usize, st: &mut Stats) -> Result<usize, Violation> {
        let hobj = self.shared[h].take().unwrap();
        self.m.guard = Guard::ReadH(h as u8);
        let res = (|| -> Result<usize, Violation> {
            let g = B::sh_read(&hobj);
            let held = Held::Handle(h, &hobj);
            let mut i = start + 1;
            loop {
                let d = B::rg_deref(&g);
                if d != self.m.value {
                    return Err(viol(self.p("C01"), self.step, "value/read-guard-deref", format!("read guard derefs to {d}, expected {}", self.m.value)));
                }
                if i >= toks.len() {
                    return Ok(i);
                }
                self.step = i;
                st.transitions += 1;
                match toks[i] {
                    Tok::GEnd => return Ok(i + 1),
                    t => self.simple(t, &held, st)?,
                }
                self.quiescent_checks(&held, false, None, st)?;
                i += 1;
            }
        })();
        self.shared[h] = Some(hobj);
        self.m.guard = Guard::None;
        res
    }

    fn read_bracket_sub(&mut self, s: usize, next_ref_now: bool, toks: &[Tok], start: usize, st: &mut Stats) -> Result<usize, Violation> {
        let mut sobj = self.subs[s].take().unwrap();
        self.m.guard = Guard::ReadSub(s as u8);
        if next_ref_now {
            self.m.subs[s] = Some(Some(self.m.epoch));
        }
        let res = (|| -> Result<usize, Violation> {
            let g = if next_ref_now { B::sub_next_ref_now_guard(&mut sobj.sub) } else { B::sub_read_guard(&sobj.sub) };
            let mut i = start + 1;
            loop {
                let d = B::rg_deref(&g);
                if d != self.m.value {
                    return Err(viol(self.p("C01"), self.step, "value/read-guard-deref", format!("subscriber read guard derefs to {d}, expected {}", self.m.value)));
                }
                if i >= toks.len() {
                    return Ok(i);
                }
                self.step = i;
                st.transitions += 1;
                match toks[i] {
                    Tok::GEnd => return Ok(i + 1),
                    t => self.simple(t, &Held::Nothing, st)?,
                }
                self.quiescent_checks(&Held::Nothing, false, Some(s), st)?;
                i += 1;
            }
        })();
        self.subs[s] = Some(sobj);
        self.m.guard = Guard::None;
        res
    }
}
