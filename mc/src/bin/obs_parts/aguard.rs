// C16, second half: async-lock flavour with guards held across other tasks.
//
// Tasks are boxed futures polled by the harness with fresh flag wakers; guard
// tasks park on a harness-controlled gate while holding their guard. The
// explorer enumerates every order of spawning, polling, gate opening and
// cancelling.
//
// A subscriber outlives the task that uses it: cancelling a pending
// `next()` / `next_ref()` future (what `select!` and timeouts do) leaves the
// subscriber usable, and nothing it had not handed out may be lost by that.
// The usual contract of async code applies to the harness: a subscriber whose
// waker was woken is polled again (or dropped) eventually - `Settle` polls idle
// subscribers that were left behind by a cancelled task once more.

use std::{cell::RefCell, rc::Rc};

#[derive(Clone, Copy, Debug, PartialEq, Eq, Hash)]
enum TaskKind {
    /// write().await; park; optionally set(v); drop guard
    WGuard(Option<u8>),
    /// read().await; park; drop guard
    RGuard,
    Set(u8),
    SetIfNotEq(u8),
    Get,
    /// sub.next().await on subscriber s
    SubNext(u8),
    /// sub.next_ref().await: two lock acquisitions inside one call
    SubNextRef(u8),
    /// sub.next_now().await
    SubNextNow(u8),
    /// the subscriber polled as a `Stream` (poll_next), not through next()
    SubStream(u8),
}

impl TaskKind {
    /// Subscriber calls that go through the acquisition future stored in the
    /// subscriber itself (`get_lock`), which survives the caller's future.
    fn uses_stored_acquisition(self) -> bool {
        matches!(self, TaskKind::SubNext(_) | TaskKind::SubNextRef(_) | TaskKind::SubStream(_))
    }

    fn sub(self) -> Option<u8> {
        match self {
            TaskKind::SubNext(s) | TaskKind::SubNextRef(s) | TaskKind::SubNextNow(s) | TaskKind::SubStream(s) => Some(s),
            _ => None,
        }
    }
}

#[derive(Clone, Copy, Debug, PartialEq, Eq, Hash)]
enum ATok {
    Spawn(TaskKind),
    Poll(u8),
    OpenGate(u8),
    Cancel(u8),
    /// open every gate and poll woken tasks (in spawn order, repeatedly)
    /// until nothing is left to poll
    Settle,
}

#[derive(Clone, Debug)]
struct ACfg {
    nsubs: u8,
    max_tasks: u8,
    /// poll tasks only when their waker was woken (plus the spawning poll)
    only_woken: bool,
    /// small alphabet (no cancel, fewer task kinds) for the deeper sweep
    small: bool,
    /// alphabet for cancellation histories: write-guard tasks (one that
    /// writes, one that does not), next() / next_ref() tasks, cancel
    cancel_focus: bool,
}

#[derive(Clone, Hash, Debug)]
struct AModel {
    /// per task slot: kind, alive (spawned, neither finished nor cancelled), gate opened
    tasks: Vec<(TaskKind, bool, bool)>,
    sub_busy: Vec<bool>,
}

#[derive(Default)]
struct GateState {
    open: bool,
    waker: Option<Waker>,
}

struct Gate(Rc<RefCell<GateState>>);

impl Future for Gate {
    type Output = ();
    fn poll(self: Pin<&mut Self>, cx: &mut Context<'_>) -> Poll<()> {
        let mut g = self.0.borrow_mut();
        if g.open {
            Poll::Ready(())
        } else {
            g.waker = Some(cx.waker().clone());
            Poll::Pending
        }
    }
}

type ASub = Subscriber<PV, AsyncLock>;
type ASh = SharedObservable<PV, AsyncLock>;

enum TaskOut {
    GuardDone,
    Prev(u8),
    OptPrev(Option<u8>),
    Value(u8),
    Sub(Option<u8>),
    SubNow(u8),
}

struct TaskR {
    kind: TaskKind,
    fut: Option<Pin<Box<dyn Future<Output = TaskOut>>>>,
    gate: Rc<RefCell<GateState>>,
    /// set by the task once it holds its guard
    holding: Rc<RefCell<bool>>,
    flag: Option<Arc<Flag>>,
    /// value read at acquisition (read guard tasks)
    done: bool,
    /// the last poll answered Pending while the lock was held or queued for
    /// by a writer: the task may be waiting in the lock's queue
    queued_for_lock: bool,
}

struct AGuardH;

impl Harness for AGuardH {
    type Cfg = ACfg;
    type Tok = ATok;
    type Model = AModel;

    fn init(&self, cfg: &ACfg) -> AModel {
        AModel { tasks: vec![], sub_busy: vec![false; cfg.nsubs as usize] }
    }

    fn enabled(&self, cfg: &ACfg, m: &AModel, out: &mut Vec<ATok>) {
        let alive = m.tasks.iter().filter(|t| t.1).count() as u8;
        if cfg.cancel_focus {
            if alive < cfg.max_tasks && (m.tasks.len() as u8) < cfg.max_tasks + 3 {
                out.push(ATok::Spawn(TaskKind::WGuard(Some(1))));
                out.push(ATok::Spawn(TaskKind::WGuard(None)));
                for s in 0..cfg.nsubs {
                    if !m.sub_busy[s as usize] {
                        out.push(ATok::Spawn(TaskKind::SubNextRef(s)));
                        out.push(ATok::Spawn(TaskKind::SubNext(s)));
                        out.push(ATok::Spawn(TaskKind::SubNextNow(s)));
                    }
                }
            }
        } else if alive < cfg.max_tasks && (m.tasks.len() as u8) < cfg.max_tasks + 3 {
            out.push(ATok::Spawn(TaskKind::WGuard(Some(1))));
            out.push(ATok::Spawn(TaskKind::RGuard));
            out.push(ATok::Spawn(TaskKind::Set(2)));
            out.push(ATok::Spawn(TaskKind::SetIfNotEq(2)));
            if !cfg.small {
                out.push(ATok::Spawn(TaskKind::WGuard(None)));
                out.push(ATok::Spawn(TaskKind::Get));
            }
            for s in 0..cfg.nsubs {
                if !m.sub_busy[s as usize] {
                    out.push(ATok::Spawn(TaskKind::SubNext(s)));
                    out.push(ATok::Spawn(TaskKind::SubStream(s)));
                    if !cfg.small {
                        out.push(ATok::Spawn(TaskKind::SubNextRef(s)));
                        out.push(ATok::Spawn(TaskKind::SubNextNow(s)));
                    }
                }
            }
        }
        if alive > 0 {
            out.push(ATok::Settle);
        }
        for (k, t) in m.tasks.iter().enumerate() {
            if t.1 {
                out.push(ATok::Poll(k as u8));
                if matches!(t.0, TaskKind::WGuard(_) | TaskKind::RGuard) && !t.2 {
                    out.push(ATok::OpenGate(k as u8));
                }
                if !cfg.small && (!cfg.cancel_focus || t.0.sub().is_some()) {
                    out.push(ATok::Cancel(k as u8));
                }
            }
        }
    }

    fn step(&self, _cfg: &ACfg, m: &mut AModel, t: &ATok) {
        // The enumeration model cannot know whether a poll completes a task
        // (that depends on the lock queue); it keeps tasks "alive" until they
        // are cancelled. `run` treats polls of finished tasks as no-ops.
        match *t {
            ATok::Spawn(k) => {
                if let Some(s) = k.sub() {
                    m.sub_busy[s as usize] = true;
                }
                m.tasks.push((k, true, false));
            }
            ATok::Poll(_) => {}
            ATok::OpenGate(k) => m.tasks[k as usize].2 = true,
            ATok::Cancel(k) => {
                m.tasks[k as usize].1 = false;
                // the subscriber of a cancelled task is free again
                if let Some(s) = m.tasks[k as usize].0.sub() {
                    m.sub_busy[s as usize] = false;
                }
            }
            ATok::Settle => {
                // everything that can finish has finished; subscriber tasks
                // with nothing to observe stay (the enumeration model keeps
                // them alive, `run` knows better)
                for t in m.tasks.iter_mut() {
                    t.1 = false;
                    t.2 = true;
                }
                // a subscriber task with nothing to observe is still pending;
                // spawning on its subscriber is then a no-op in `run`
                for b in m.sub_busy.iter_mut() {
                    *b = false;
                }
            }
        }
    }

    fn panic_prop(&self, _cfg: &ACfg) -> &'static str {
        "C16"
    }

    fn run(&self, cfg: &ACfg, toks: &[ATok], st: &mut Stats) -> Result<(), Violation> {
        let mut w = AWorld::new(cfg);
        w.exec(toks, st)
    }
}

struct AWorld {
    cfg: ACfg,
    ob: ASh,
    subs: Vec<Rc<RefCell<ASub>>>,
    /// a task is using the subscriber
    busy: Vec<bool>,
    /// the subscriber was left behind by a cancelled pending task (or by an
    /// earlier idle poll that answered Pending): `Settle` polls it again
    idle: Vec<Option<Arc<Flag>>>,
    left_behind: Vec<bool>,
    /// Known finding F14: the subscriber's stored lock acquisition was left
    /// queued by a cancelled `next()` / `next_ref()` / stream poll. It is
    /// granted a read permit when its turn comes and keeps it until the
    /// subscriber is polled that way again or dropped.
    phantom: Vec<bool>,
    /// model: observed epoch per subscriber
    seen: Vec<u32>,
    value: u8,
    epoch: u32,
    tasks: Vec<TaskR>,
    step: usize,
}

impl AWorld {
    fn new(cfg: &ACfg) -> Self {
        let ob = SharedObservable::new_async(PV::mk(0));
        let subs = (0..cfg.nsubs).map(|_| Rc::new(RefCell::new(now(ob.subscribe())))).collect();
        let n = cfg.nsubs as usize;
        AWorld { cfg: cfg.clone(), ob, subs, busy: vec![false; n], idle: vec![None; n], left_behind: vec![false; n], phantom: vec![false; n], seen: vec![1; cfg.nsubs as usize], value: 0, epoch: 1, tasks: vec![], step: 0 }
    }

    fn holders(&self) -> (usize, usize) {
        let mut w = 0;
        let mut r = 0;
        for t in &self.tasks {
            if !t.done && t.fut.is_some() && *t.holding.borrow() {
                match t.kind {
                    TaskKind::WGuard(_) => w += 1,
                    TaskKind::RGuard => r += 1,
                    _ => {}
                }
            }
        }
        (w, r)
    }

    fn spawn(&mut self, kind: TaskKind) {
        let gate = Rc::new(RefCell::new(GateState::default()));
        let holding = Rc::new(RefCell::new(false));
        let ob = self.ob.clone();
        let fut: Pin<Box<dyn Future<Output = TaskOut>>> = match kind {
            TaskKind::WGuard(v) => {
                let (g2, h2) = (gate.clone(), holding.clone());
                Box::pin(async move {
                    let mut g = ob.write().await;
                    *h2.borrow_mut() = true;
                    Gate(g2).await;
                    if let Some(v) = v {
                        ObservableWriteGuard::set(&mut g, PV::mk(v));
                    }
                    *h2.borrow_mut() = false;
                    drop(g);
                    TaskOut::GuardDone
                })
            }
            TaskKind::RGuard => {
                let (g2, h2) = (gate.clone(), holding.clone());
                Box::pin(async move {
                    let g = ob.read().await;
                    *h2.borrow_mut() = true;
                    let v = g.code();
                    Gate(g2).await;
                    let v2 = g.code();
                    *h2.borrow_mut() = false;
                    drop(g);
                    TaskOut::Value(if v == v2 { v } else { 255 })
                })
            }
            TaskKind::Set(v) => Box::pin(async move { TaskOut::Prev(ob.set(PV::mk(v)).await.code()) }),
            TaskKind::SetIfNotEq(v) => Box::pin(async move { TaskOut::OptPrev(ob.set_if_not_eq(PV::mk(v)).await.map(|p| p.code())) }),
            TaskKind::Get => Box::pin(async move { TaskOut::Value(ob.get().await.code()) }),
            TaskKind::SubNext(s) => {
                let rc = self.claim(s, kind);
                Box::pin(async move {
                    let mut sub = rc.borrow_mut();
                    let r = sub.next().await.map(|v| v.code());
                    TaskOut::Sub(r)
                })
            }
            TaskKind::SubNextRef(s) => {
                let rc = self.claim(s, kind);
                Box::pin(async move {
                    let mut sub = rc.borrow_mut();
                    let r = sub.next_ref().await.map(|g| g.code());
                    TaskOut::Sub(r)
                })
            }
            TaskKind::SubNextNow(s) => {
                let rc = self.claim(s, kind);
                Box::pin(async move {
                    let mut sub = rc.borrow_mut();
                    let r = sub.next_now().await.code();
                    TaskOut::SubNow(r)
                })
            }
            TaskKind::SubStream(s) => {
                let rc = self.claim(s, kind);
                Box::pin(async move {
                    let mut sub = rc.borrow_mut();
                    let r = std::future::poll_fn(|cx| Pin::new(&mut *sub).poll_next(cx)).await.map(|v| v.code());
                    TaskOut::Sub(r)
                })
            }
        };
        self.tasks.push(TaskR { kind, fut: Some(fut), gate, holding, flag: None, done: false, queued_for_lock: false });
    }

    fn claim(&mut self, s: u8, kind: TaskKind) -> Rc<RefCell<ASub>> {
        let s = s as usize;
        assert!(!self.busy[s], "subscriber is free");
        self.busy[s] = true;
        self.idle[s] = None;
        self.left_behind[s] = false;
        if kind.uses_stored_acquisition() {
            // its first poll drives the stored acquisition on
            self.phantom[s] = false;
        }
        self.subs[s].clone()
    }

    fn v(&self, sig: &str, detail: String) -> Violation {
        Violation { prop: "C16", step: self.step, sig: sig.into(), detail }
    }

    /// Poll task k once and check what its completion implies.
    fn poll_task(&mut self, k: usize, st: &mut Stats) -> Result<(), Violation> {
        if self.tasks[k].done || self.tasks[k].fut.is_none() {
            return Ok(());
        }
        let (w_before, r_before) = self.holders();
        let was_holding = *self.tasks[k].holding.borrow();
        let (flag, waker) = flag_waker();
        let mut cx = Context::from_waker(&waker);
        let r = self.tasks[k].fut.as_mut().unwrap().as_mut().poll(&mut cx);
        st.transitions += 1;
        let kind = self.tasks[k].kind;
        let (w_after, r_after) = self.holders();
        if w_after > 1 || (w_after == 1 && r_after > 0) {
            return Err(self.v("exclusion/two-holders", format!("after polling task {k} ({kind:?}): {w_after} write guard(s) and {r_after} read guard(s) are held at once")));
        }
        match r {
            Poll::Pending => {
                self.tasks[k].flag = Some(flag);
                let writer_queued = self.tasks.iter().enumerate().any(|(j, t)| {
                    j != k && !t.done && t.fut.is_some() && matches!(t.kind, TaskKind::Set(_) | TaskKind::SetIfNotEq(_) | TaskKind::WGuard(_)) && !*t.holding.borrow()
                });
                self.tasks[k].queued_for_lock = !was_holding && (w_before > 0 || writer_queued);
                if !was_holding && (w_before > 0 || (r_before > 0 && matches!(kind, TaskKind::Set(_) | TaskKind::SetIfNotEq(_) | TaskKind::WGuard(_)))) {
                    st.mark("task_waits_for_the_lock");
                    if matches!(kind, TaskKind::SubNext(_) | TaskKind::SubNextRef(_) | TaskKind::SubStream(_)) && w_before > 0 {
                        st.mark("subscriber_polled_under_write_guard");
                    }
                }
                Ok(())
            }
            Poll::Ready(out) => {
                self.tasks[k].done = true;
                self.tasks[k].fut = None;
                let blocked_by_writer = w_before > 0 && !was_holding;
                if blocked_by_writer {
                    return Err(self.v("exclusion/completed-under-write-guard", format!("task {k} ({kind:?}) completed while another task holds a write guard")));
                }
                match (kind, out) {
                    (TaskKind::WGuard(v), TaskOut::GuardDone) => {
                        if let Some(v) = v {
                            self.value = v;
                            self.epoch += 1;
                        }
                        st.hit("write_guard_released");
                    }
                    (TaskKind::RGuard, TaskOut::Value(x)) => {
                        if x != self.value {
                            return Err(self.v("read-guard-value", format!("task {k}: a read guard saw {x} (255 = changed while held), value is {}", self.value)));
                        }
                    }
                    (TaskKind::Set(v), TaskOut::Prev(p)) => {
                        if r_before > 0 {
                            return Err(self.v("exclusion/set-under-read-guard", format!("task {k}: set completed while a read guard is held")));
                        }
                        if p != self.value {
                            return Err(self.v("set-return", format!("task {k}: set returned {p}, previous value was {}", self.value)));
                        }
                        self.value = v;
                        self.epoch += 1;
                    }
                    (TaskKind::SetIfNotEq(v), TaskOut::OptPrev(p)) => {
                        let exp = if self.value != v { Some(self.value) } else { None };
                        if p != exp {
                            return Err(self.v("set_if_not_eq-return", format!("task {k}: set_if_not_eq({v}) returned {p:?} when the value was {}, expected {exp:?}", self.value)));
                        }
                        if exp.is_some() {
                            if r_before > 0 {
                                return Err(self.v("exclusion/set-under-read-guard", format!("task {k}: set_if_not_eq stored while a read guard is held")));
                            }
                            self.value = v;
                            self.epoch += 1;
                        } else {
                            st.mark("conditional_setter_declined_after_waiting");
                        }
                    }
                    (TaskKind::Get, TaskOut::Value(x)) => {
                        if x != self.value {
                            return Err(self.v("get-value", format!("task {k}: get returned {x}, value is {}", self.value)));
                        }
                    }
                    (TaskKind::SubNext(s) | TaskKind::SubNextRef(s) | TaskKind::SubStream(s), TaskOut::Sub(r)) => {
                        let s = s as usize;
                        if self.seen[s] == self.epoch {
                            return Err(self.v("next-ready-without-update", format!("task {k}: next() returned {r:?} although subscriber {s} had observed the latest update")));
                        }
                        if r != Some(self.value) {
                            return Err(self.v("next-value", format!("task {k}: next() returned {r:?}, value is {}", self.value)));
                        }
                        self.seen[s] = self.epoch;
                        self.busy[s] = false;
                        if self.tasks[k].flag.is_some() {
                            st.mark("subscriber_ready_after_waiting");
                        }
                    }
                    (TaskKind::SubNextNow(s), TaskOut::SubNow(x)) => {
                        let s = s as usize;
                        if x != self.value {
                            return Err(self.v("next-now-value", format!("task {k}: next_now() returned {x}, value is {}", self.value)));
                        }
                        self.seen[s] = self.epoch;
                        self.busy[s] = false;
                    }
                    _ => return Err(self.v("harness", "task output of the wrong kind".into())),
                }
                if self.tasks[k].flag.is_some() {
                    st.mark("task_completed_after_waiting");
                }
                Ok(())
            }
        }
    }

    /// Open every gate, then poll only tasks whose waker was woken (in spawn
    /// order, repeatedly) until none is left.
    fn settle(&mut self, st: &mut Stats) -> Result<(), Violation> {
        for t in &self.tasks {
            let w = {
                let mut g = t.gate.borrow_mut();
                g.open = true;
                g.waker.take()
            };
            if let Some(w) = w {
                w.wake();
            }
        }
        for _round in 0..64 {
            let mut progressed = false;
            for s in 0..self.subs.len() {
                let due = !self.busy[s] && (self.left_behind[s] || self.idle[s].as_ref().is_some_and(|f| f.woken()));
                if due {
                    self.poll_idle(s, st)?;
                    progressed = true;
                }
            }
            for k in 0..self.tasks.len() {
                let woken = match (&self.tasks[k].fut, &self.tasks[k].flag) {
                    (Some(_), Some(f)) => f.woken(),
                    _ => false,
                };
                if woken && !self.tasks[k].done {
                    self.poll_task(k, st)?;
                    progressed = true;
                }
            }
            if !progressed {
                break;
            }
        }
        Ok(())
    }

    /// Poll a subscriber that no task is using (it was left behind by a
    /// cancelled task) once, as a stream.
    fn poll_idle(&mut self, s: usize, st: &mut Stats) -> Result<(), Violation> {
        self.left_behind[s] = false;
        self.phantom[s] = false;
        let (flag, waker) = flag_waker();
        let mut cx = Context::from_waker(&waker);
        let r = {
            let mut sub = self.subs[s].borrow_mut();
            Pin::new(&mut *sub).poll_next(&mut cx).map(|o| o.map(|v| v.code()))
        };
        st.transitions += 1;
        st.mark("subscriber_polled_again_after_its_task_was_cancelled");
        match r {
            Poll::Pending => {
                self.idle[s] = Some(flag);
                Ok(())
            }
            Poll::Ready(r) => {
                self.idle[s] = None;
                if self.seen[s] == self.epoch {
                    return Err(self.v("next-ready-without-update", format!("idle subscriber {s}: poll_next returned {r:?} although it had observed the latest update")));
                }
                if r != Some(self.value) {
                    return Err(self.v("next-value", format!("idle subscriber {s}: poll_next returned {r:?}, value is {}", self.value)));
                }
                self.seen[s] = self.epoch;
                Ok(())
            }
        }
    }

    /// After settling, only a subscriber task with nothing to observe may
    /// still be pending.
    fn check_stuck(&self) -> Result<(), Violation> {
        for s in 0..self.subs.len() {
            if !self.busy[s] && self.idle[s].is_some() && self.seen[s] != self.epoch {
                return Err(self.v(
                    "update-lost-by-cancelled-future",
                    format!(
                        "subscriber {s} was left behind by a cancelled task and polled again: it answers Pending although it never handed out the latest update (value {}); its waker was woken: {:?}",
                        self.value,
                        self.idle[s].as_ref().map(|f| f.woken())
                    ),
                ));
            }
        }
        for (k, t) in self.tasks.iter().enumerate() {
            if t.done || t.fut.is_none() {
                continue;
            }
            let legit = match t.kind {
                TaskKind::SubNext(s) | TaskKind::SubNextRef(s) | TaskKind::SubStream(s) => self.seen[s as usize] == self.epoch,
                _ => false,
            };
            if !legit {
                if let Some(s) = self.phantom.iter().position(|p| *p) {
                    return Err(self.v(
                        "abandoned-lock-acquisition-holds-the-lock",
                        format!(
                            "task {k} ({:?}) can never finish: a next() / next_ref() / stream poll of subscriber {s} was cancelled while it was queued for the lock; the acquisition lives on inside the subscriber, has been granted a read permit and keeps it until that subscriber is polled that way again or dropped",
                            t.kind
                        ),
                    ));
                }
                return Err(self.v(
                    "lost-wakeup/task-stuck",
                    format!(
                        "all gates are open and no task has a woken waker, but task {k} ({:?}) is still pending (its waker was woken: {:?})",
                        t.kind,
                        t.flag.as_ref().map(|f| f.woken())
                    ),
                ));
            }
        }
        Ok(())
    }

    fn exec(&mut self, toks: &[ATok], st: &mut Stats) -> Result<(), Violation> {
        for (i, t) in toks.iter().enumerate() {
            self.step = i;
            match *t {
                ATok::Spawn(kind) => {
                    if let Some(s) = kind.sub() {
                        if self.busy[s as usize] {
                            // its previous task is still pending: keep task
                            // indices aligned with the enumeration model
                            self.tasks.push(TaskR { kind, fut: None, gate: Rc::new(RefCell::new(GateState::default())), holding: Rc::new(RefCell::new(false)), flag: None, done: true, queued_for_lock: false });
                            continue;
                        }
                    }
                    self.spawn(kind);
                    let k = self.tasks.len() - 1;
                    self.poll_task(k, st)?;
                }
                ATok::Poll(k) => {
                    let k = k as usize;
                    if self.cfg.only_woken {
                        if let Some(f) = &self.tasks[k].flag {
                            if !f.woken() {
                                continue;
                            }
                        }
                    }
                    self.poll_task(k, st)?;
                }
                ATok::OpenGate(k) => {
                    let w = {
                        let mut g = self.tasks[k as usize].gate.borrow_mut();
                        g.open = true;
                        g.waker.take()
                    };
                    if let Some(w) = w {
                        w.wake();
                    }
                }
                ATok::Settle => {
                    self.settle(st)?;
                    self.check_stuck()?;
                }
                ATok::Cancel(k) => {
                    let t = &mut self.tasks[k as usize];
                    if !t.done {
                        if t.fut.is_some() && t.flag.is_some() {
                            st.hit("pending_task_cancelled");
                        }
                        let was_pending = t.fut.is_some() && t.flag.is_some();
                        let phantom = was_pending && t.queued_for_lock && t.kind.uses_stored_acquisition();
                        t.fut = None; // drops the future: guards and queue entries are released
                        t.done = true;
                        if let Some(s) = t.kind.sub() {
                            // the subscriber survives its task
                            let s = s as usize;
                            self.busy[s] = false;
                            self.left_behind[s] = was_pending;
                            if phantom {
                                self.phantom[s] = true;
                            }
                            if was_pending {
                                st.mark("subscriber_task_cancelled_subscriber_kept");
                            }
                        }
                    }
                }
            }
        }
        self.step = toks.len();
        // Epilogue: everything must drain.
        self.settle(st)?;
        self.check_stuck()?;
        st.hit("drained");
        Ok(())
    }
}
