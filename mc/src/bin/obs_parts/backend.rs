// The operations of the observable API, abstracted over the lock flavour so
// that one token language and one reference model drive both (C16).

#[derive(Clone, Copy, Debug, PartialEq, Eq, Hash)]
enum Setter {
    Set(u8),
    SetIfNotEq(u8),
    SetIfHashNotEq(u8),
    Take,
    /// update(|v| *v = next(v))
    Update,
    /// update_if(|v| { if mutate { *v = next(v) }; ret })
    UpdateIf { mutate: bool, ret: bool },
}

fn next_code(c: u8) -> u8 {
    (c + 1) % 3
}

/// What a setter returned, reduced to codes.
#[derive(Clone, Copy, Debug, PartialEq, Eq)]
enum SetRet {
    Prev(u8),
    Opt(Option<u8>),
    Unit,
}

#[derive(Clone, Copy, Debug, PartialEq, Eq)]
struct Counts {
    observable: usize,
    subscriber: usize,
    strong: usize,
    weak: usize,
}

trait Backend: 'static {
    type V: Val;
    type Ob;
    type Sh;
    type Wk;
    type Sub;
    type WGuard<'a>;
    type RGuard<'a>;
    const NAME: &'static str;
    const ASYNC: bool;

    fn ob_new(v: Self::V) -> Self::Ob;
    fn ob_default() -> Self::Ob;
    fn ob_subscribe(o: &Self::Ob) -> Self::Sub;
    fn ob_subscribe_reset(o: &Self::Ob) -> Self::Sub;
    fn ob_get(o: &Self::Ob) -> u8;
    fn ob_apply(o: &mut Self::Ob, s: Setter) -> SetRet;
    fn ob_subscriber_count(o: &Self::Ob) -> usize;
    fn ob_into_shared(o: Self::Ob) -> Self::Sh;

    fn sh_new(v: Self::V) -> Self::Sh;
    fn sh_default() -> Self::Sh;
    fn sh_subscribe(o: &Self::Sh) -> Self::Sub;
    fn sh_subscribe_reset(o: &Self::Sh) -> Self::Sub;
    fn sh_get(o: &Self::Sh) -> u8;
    fn sh_apply(o: &Self::Sh, s: Setter) -> SetRet;
    fn sh_clone(o: &Self::Sh) -> Self::Sh;
    fn sh_downgrade(o: &Self::Sh) -> Self::Wk;
    fn sh_counts(o: &Self::Sh) -> Counts;
    /// Some(value) if the read lock could be taken.
    fn sh_try_read(o: &Self::Sh) -> Option<u8>;
    fn sh_try_write(o: &Self::Sh) -> bool;
    fn sh_read(o: &Self::Sh) -> Self::RGuard<'_>;
    fn sh_write(o: &Self::Sh) -> Self::WGuard<'_>;

    fn wg_apply(g: &mut Self::WGuard<'_>, s: Setter) -> SetRet;
    fn wg_deref(g: &Self::WGuard<'_>) -> u8;
    fn rg_deref(g: &Self::RGuard<'_>) -> u8;

    fn wk_upgrade(w: &Self::Wk) -> Option<Self::Sh>;
    fn wk_clone(w: &Self::Wk) -> Self::Wk;

    fn sub_poll_stream(s: &mut Self::Sub, cx: &mut Context<'_>) -> Poll<Option<u8>>;
    fn sub_poll_next(s: &mut Self::Sub, cx: &mut Context<'_>) -> Poll<Option<u8>>;
    fn sub_poll_next_ref(s: &mut Self::Sub, cx: &mut Context<'_>) -> Poll<Option<u8>>;
    fn sub_next_now(s: &mut Self::Sub) -> u8;
    fn sub_next_ref_now(s: &mut Self::Sub) -> u8;
    fn sub_get(s: &Self::Sub) -> u8;
    fn sub_read(s: &Self::Sub) -> u8;
    fn sub_reset(s: &mut Self::Sub);
    fn sub_clone(s: &Self::Sub) -> Self::Sub;
    fn sub_clone_reset(s: &Self::Sub) -> Self::Sub;
    fn sub_read_guard(s: &Self::Sub) -> Self::RGuard<'_>;
    fn sub_next_ref_now_guard(s: &mut Self::Sub) -> Self::RGuard<'_>;
}

/// Drive a future that must complete at once (no guard is held anywhere).
fn now<F: Future>(f: F) -> F::Output {
    let mut f = pin!(f);
    let mut cx = Context::from_waker(Waker::noop());
    match f.as_mut().poll(&mut cx) {
        Poll::Ready(v) => v,
        Poll::Pending => panic!("VERIF: an async call did not complete at once although no guard is held"),
    }
}

// ---------------------------------------------------------------------------

struct SyncB<V: Val>(PhantomData<V>);

impl<V: Val> Backend for SyncB<V> {
    type V = V;
    type Ob = Observable<V>;
    type Sh = SharedObservable<V>;
    type Wk = WeakObservable<V>;
    type Sub = Subscriber<V>;
    type WGuard<'a> = ObservableWriteGuard<'a, V>;
    type RGuard<'a> = ObservableReadGuard<'a, V>;
    const NAME: &'static str = "sync";
    const ASYNC: bool = false;

    fn ob_new(v: V) -> Self::Ob {
        Observable::new(v)
    }
    fn ob_default() -> Self::Ob {
        Observable::default()
    }
    fn ob_subscribe(o: &Self::Ob) -> Self::Sub {
        Observable::subscribe(o)
    }
    fn ob_subscribe_reset(o: &Self::Ob) -> Self::Sub {
        Observable::subscribe_reset(o)
    }
    fn ob_get(o: &Self::Ob) -> u8 {
        let a = Observable::get(o).code();
        let b = (**o).code();
        assert_eq!(a, b, "Observable::get and Deref disagree");
        a
    }
    fn ob_apply(o: &mut Self::Ob, s: Setter) -> SetRet {
        match s {
            Setter::Set(c) => SetRet::Prev(Observable::set(o, V::mk(c)).code()),
            Setter::SetIfNotEq(c) => SetRet::Opt(Observable::set_if_not_eq(o, V::mk(c)).map(|v| v.code())),
            Setter::SetIfHashNotEq(c) => SetRet::Opt(Observable::set_if_hash_not_eq(o, V::mk(c)).map(|v| v.code())),
            Setter::Take => SetRet::Prev(Observable::take(o).code()),
            Setter::Update => {
                Observable::update(o, |v| *v = V::mk(next_code(v.code())));
                SetRet::Unit
            }
            Setter::UpdateIf { mutate, ret } => {
                Observable::update_if(o, |v| {
                    if mutate {
                        *v = V::mk(next_code(v.code()));
                    }
                    ret
                });
                SetRet::Unit
            }
        }
    }
    fn ob_subscriber_count(o: &Self::Ob) -> usize {
        Observable::subscriber_count(o)
    }
    fn ob_into_shared(o: Self::Ob) -> Self::Sh {
        Observable::into_shared(o)
    }

    fn sh_new(v: V) -> Self::Sh {
        SharedObservable::new(v)
    }
    fn sh_default() -> Self::Sh {
        SharedObservable::default()
    }
    fn sh_subscribe(o: &Self::Sh) -> Self::Sub {
        o.subscribe()
    }
    fn sh_subscribe_reset(o: &Self::Sh) -> Self::Sub {
        o.subscribe_reset()
    }
    fn sh_get(o: &Self::Sh) -> u8 {
        o.get().code()
    }
    fn sh_apply(o: &Self::Sh, s: Setter) -> SetRet {
        match s {
            Setter::Set(c) => SetRet::Prev(o.set(V::mk(c)).code()),
            Setter::SetIfNotEq(c) => SetRet::Opt(o.set_if_not_eq(V::mk(c)).map(|v| v.code())),
            Setter::SetIfHashNotEq(c) => SetRet::Opt(o.set_if_hash_not_eq(V::mk(c)).map(|v| v.code())),
            Setter::Take => SetRet::Prev(o.take().code()),
            Setter::Update => {
                o.update(|v| *v = V::mk(next_code(v.code())));
                SetRet::Unit
            }
            Setter::UpdateIf { mutate, ret } => {
                o.update_if(|v| {
                    if mutate {
                        *v = V::mk(next_code(v.code()));
                    }
                    ret
                });
                SetRet::Unit
            }
        }
    }
    fn sh_clone(o: &Self::Sh) -> Self::Sh {
        o.clone()
    }
    fn sh_downgrade(o: &Self::Sh) -> Self::Wk {
        o.downgrade()
    }
    fn sh_counts(o: &Self::Sh) -> Counts {
        Counts { observable: o.observable_count(), subscriber: o.subscriber_count(), strong: o.strong_count(), weak: o.weak_count() }
    }
    fn sh_try_read(o: &Self::Sh) -> Option<u8> {
        o.try_read().ok().map(|g| g.code())
    }
    fn sh_try_write(o: &Self::Sh) -> bool {
        o.try_write().is_ok()
    }
    fn sh_read(o: &Self::Sh) -> Self::RGuard<'_> {
        o.read()
    }
    fn sh_write(o: &Self::Sh) -> Self::WGuard<'_> {
        o.write()
    }

    fn wg_apply(g: &mut Self::WGuard<'_>, s: Setter) -> SetRet {
        match s {
            Setter::Set(c) => SetRet::Prev(ObservableWriteGuard::set(g, V::mk(c)).code()),
            Setter::SetIfNotEq(c) => SetRet::Opt(ObservableWriteGuard::set_if_not_eq(g, V::mk(c)).map(|v| v.code())),
            Setter::SetIfHashNotEq(c) => SetRet::Opt(ObservableWriteGuard::set_if_hash_not_eq(g, V::mk(c)).map(|v| v.code())),
            Setter::Take => SetRet::Prev(ObservableWriteGuard::take(g).code()),
            Setter::Update => {
                ObservableWriteGuard::update(g, |v| *v = V::mk(next_code(v.code())));
                SetRet::Unit
            }
            Setter::UpdateIf { mutate, ret } => {
                ObservableWriteGuard::update_if(g, |v| {
                    if mutate {
                        *v = V::mk(next_code(v.code()));
                    }
                    ret
                });
                SetRet::Unit
            }
        }
    }
    fn wg_deref(g: &Self::WGuard<'_>) -> u8 {
        (**g).code()
    }
    fn rg_deref(g: &Self::RGuard<'_>) -> u8 {
        (**g).code()
    }

    fn wk_upgrade(w: &Self::Wk) -> Option<Self::Sh> {
        w.upgrade()
    }
    fn wk_clone(w: &Self::Wk) -> Self::Wk {
        w.clone()
    }

    fn sub_poll_stream(s: &mut Self::Sub, cx: &mut Context<'_>) -> Poll<Option<u8>> {
        Pin::new(s).poll_next(cx).map(|o| o.map(|v| v.code()))
    }
    fn sub_poll_next(s: &mut Self::Sub, cx: &mut Context<'_>) -> Poll<Option<u8>> {
        let mut f = s.next();
        Pin::new(&mut f).poll(cx).map(|o| o.map(|v| v.code()))
    }
    fn sub_poll_next_ref(s: &mut Self::Sub, cx: &mut Context<'_>) -> Poll<Option<u8>> {
        let f = pin!(s.next_ref());
        f.poll(cx).map(|o| o.map(|g| g.code()))
    }
    fn sub_next_now(s: &mut Self::Sub) -> u8 {
        s.next_now().code()
    }
    fn sub_next_ref_now(s: &mut Self::Sub) -> u8 {
        s.next_ref_now().code()
    }
    fn sub_get(s: &Self::Sub) -> u8 {
        s.get().code()
    }
    fn sub_read(s: &Self::Sub) -> u8 {
        s.read().code()
    }
    fn sub_reset(s: &mut Self::Sub) {
        s.reset()
    }
    fn sub_clone(s: &Self::Sub) -> Self::Sub {
        s.clone()
    }
    fn sub_clone_reset(s: &Self::Sub) -> Self::Sub {
        s.clone_reset()
    }
    fn sub_read_guard(s: &Self::Sub) -> Self::RGuard<'_> {
        s.read()
    }
    fn sub_next_ref_now_guard(s: &mut Self::Sub) -> Self::RGuard<'_> {
        s.next_ref_now()
    }
}

// ---------------------------------------------------------------------------

struct AsyncB<V: Val>(PhantomData<V>);

impl<V: Val> Backend for AsyncB<V> {
    type V = V;
    type Ob = Observable<V, AsyncLock>;
    type Sh = SharedObservable<V, AsyncLock>;
    type Wk = WeakObservable<V, AsyncLock>;
    type Sub = Subscriber<V, AsyncLock>;
    type WGuard<'a> = ObservableWriteGuard<'a, V, AsyncLock>;
    type RGuard<'a> = ObservableReadGuard<'a, V, AsyncLock>;
    const NAME: &'static str = "async";
    const ASYNC: bool = true;

    fn ob_new(v: V) -> Self::Ob {
        Observable::new_async(v)
    }
    fn ob_default() -> Self::Ob {
        Observable::default()
    }
    fn ob_subscribe(o: &Self::Ob) -> Self::Sub {
        Observable::subscribe_async(o)
    }
    fn ob_subscribe_reset(o: &Self::Ob) -> Self::Sub {
        Observable::subscribe_reset_async(o)
    }
    fn ob_get(o: &Self::Ob) -> u8 {
        Observable::get_async(o).code()
    }
    fn ob_apply(o: &mut Self::Ob, s: Setter) -> SetRet {
        match s {
            Setter::Set(c) => SetRet::Prev(now(Observable::set_async(o, V::mk(c))).code()),
            Setter::SetIfNotEq(c) => SetRet::Opt(now(Observable::set_if_not_eq_async(o, V::mk(c))).map(|v| v.code())),
            Setter::SetIfHashNotEq(c) => SetRet::Opt(now(Observable::set_if_hash_not_eq_async(o, V::mk(c))).map(|v| v.code())),
            Setter::Take => SetRet::Prev(now(Observable::take_async(o)).code()),
            Setter::Update => {
                now(Observable::update_async(o, |v| *v = V::mk(next_code(v.code()))));
                SetRet::Unit
            }
            Setter::UpdateIf { mutate, ret } => {
                now(Observable::update_if_async(o, |v| {
                    if mutate {
                        *v = V::mk(next_code(v.code()));
                    }
                    ret
                }));
                SetRet::Unit
            }
        }
    }
    fn ob_subscriber_count(o: &Self::Ob) -> usize {
        Observable::subscriber_count(o)
    }
    fn ob_into_shared(o: Self::Ob) -> Self::Sh {
        Observable::into_shared(o)
    }

    fn sh_new(v: V) -> Self::Sh {
        SharedObservable::new_async(v)
    }
    fn sh_default() -> Self::Sh {
        SharedObservable::default()
    }
    fn sh_subscribe(o: &Self::Sh) -> Self::Sub {
        now(o.subscribe())
    }
    fn sh_subscribe_reset(o: &Self::Sh) -> Self::Sub {
        o.subscribe_reset()
    }
    fn sh_get(o: &Self::Sh) -> u8 {
        now(o.get()).code()
    }
    fn sh_apply(o: &Self::Sh, s: Setter) -> SetRet {
        match s {
            Setter::Set(c) => SetRet::Prev(now(o.set(V::mk(c))).code()),
            Setter::SetIfNotEq(c) => SetRet::Opt(now(o.set_if_not_eq(V::mk(c))).map(|v| v.code())),
            Setter::SetIfHashNotEq(c) => SetRet::Opt(now(o.set_if_hash_not_eq(V::mk(c))).map(|v| v.code())),
            Setter::Take => SetRet::Prev(now(o.take()).code()),
            Setter::Update => {
                now(o.update(|v| *v = V::mk(next_code(v.code()))));
                SetRet::Unit
            }
            Setter::UpdateIf { mutate, ret } => {
                now(o.update_if(|v| {
                    if mutate {
                        *v = V::mk(next_code(v.code()));
                    }
                    ret
                }));
                SetRet::Unit
            }
        }
    }
    fn sh_clone(o: &Self::Sh) -> Self::Sh {
        o.clone()
    }
    fn sh_downgrade(o: &Self::Sh) -> Self::Wk {
        o.downgrade()
    }
    fn sh_counts(o: &Self::Sh) -> Counts {
        Counts { observable: o.observable_count(), subscriber: o.subscriber_count(), strong: o.strong_count(), weak: o.weak_count() }
    }
    fn sh_try_read(o: &Self::Sh) -> Option<u8> {
        o.try_read().map(|g| g.code())
    }
    fn sh_try_write(o: &Self::Sh) -> bool {
        o.try_write().is_some()
    }
    fn sh_read(o: &Self::Sh) -> Self::RGuard<'_> {
        now(o.read())
    }
    fn sh_write(o: &Self::Sh) -> Self::WGuard<'_> {
        now(o.write())
    }

    fn wg_apply(g: &mut Self::WGuard<'_>, s: Setter) -> SetRet {
        match s {
            Setter::Set(c) => SetRet::Prev(ObservableWriteGuard::set(g, V::mk(c)).code()),
            Setter::SetIfNotEq(c) => SetRet::Opt(ObservableWriteGuard::set_if_not_eq(g, V::mk(c)).map(|v| v.code())),
            Setter::SetIfHashNotEq(c) => SetRet::Opt(ObservableWriteGuard::set_if_hash_not_eq(g, V::mk(c)).map(|v| v.code())),
            Setter::Take => SetRet::Prev(ObservableWriteGuard::take(g).code()),
            Setter::Update => {
                ObservableWriteGuard::update(g, |v| *v = V::mk(next_code(v.code())));
                SetRet::Unit
            }
            Setter::UpdateIf { mutate, ret } => {
                ObservableWriteGuard::update_if(g, |v| {
                    if mutate {
                        *v = V::mk(next_code(v.code()));
                    }
                    ret
                });
                SetRet::Unit
            }
        }
    }
    fn wg_deref(g: &Self::WGuard<'_>) -> u8 {
        (**g).code()
    }
    fn rg_deref(g: &Self::RGuard<'_>) -> u8 {
        (**g).code()
    }

    fn wk_upgrade(w: &Self::Wk) -> Option<Self::Sh> {
        w.upgrade()
    }
    fn wk_clone(w: &Self::Wk) -> Self::Wk {
        w.clone()
    }

    fn sub_poll_stream(s: &mut Self::Sub, cx: &mut Context<'_>) -> Poll<Option<u8>> {
        Pin::new(s).poll_next(cx).map(|o| o.map(|v| v.code()))
    }
    fn sub_poll_next(s: &mut Self::Sub, cx: &mut Context<'_>) -> Poll<Option<u8>> {
        let f = pin!(s.next());
        f.poll(cx).map(|o| o.map(|v| v.code()))
    }
    fn sub_poll_next_ref(s: &mut Self::Sub, cx: &mut Context<'_>) -> Poll<Option<u8>> {
        let f = pin!(s.next_ref());
        f.poll(cx).map(|o| o.map(|g| g.code()))
    }
    fn sub_next_now(s: &mut Self::Sub) -> u8 {
        now(s.next_now()).code()
    }
    fn sub_next_ref_now(s: &mut Self::Sub) -> u8 {
        now(s.next_ref_now()).code()
    }
    fn sub_get(s: &Self::Sub) -> u8 {
        now(s.get()).code()
    }
    fn sub_read(s: &Self::Sub) -> u8 {
        now(s.read()).code()
    }
    fn sub_reset(s: &mut Self::Sub) {
        s.reset()
    }
    fn sub_clone(s: &Self::Sub) -> Self::Sub {
        s.clone()
    }
    fn sub_clone_reset(s: &Self::Sub) -> Self::Sub {
        s.clone_reset()
    }
    fn sub_read_guard(s: &Self::Sub) -> Self::RGuard<'_> {
        now(s.read())
    }
    fn sub_next_ref_now_guard(s: &mut Self::Sub) -> Self::RGuard<'_> {
        now(s.next_ref_now())
    }
}
