// Value types stored in the observables.
//
// Three values, by code: 0 = V{a:0,b:0} (the Default), 1 = V{a:0,b:1},
// 2 = V{a:1,b:0}. Equality looks at (a, b), hashing at `a` only, so codes 0
// and 1 are different but hash-equal: that separates set_if_not_eq from
// set_if_hash_not_eq.

trait Val: Clone + PartialEq + std::hash::Hash + Default + fmt::Debug + Send + Sync + 'static {
    const TRACKED: bool;
    fn mk(code: u8) -> Self;
    fn code(&self) -> u8;
}

fn ab(code: u8) -> (u8, u8) {
    match code {
        0 => (0, 0),
        1 => (0, 1),
        _ => (1, 0),
    }
}

fn code_of(a: u8, b: u8) -> u8 {
    match (a, b) {
        (0, 0) => 0,
        (0, _) => 1,
        _ => 2,
    }
}

fn hash_eq(c1: u8, c2: u8) -> bool {
    ab(c1).0 == ab(c2).0
}

#[derive(Clone, PartialEq, Eq, Default)]
struct PV {
    a: u8,
    b: u8,
}

impl std::hash::Hash for PV {
    fn hash<H: std::hash::Hasher>(&self, h: &mut H) {
        self.a.hash(h)
    }
}

impl fmt::Debug for PV {
    fn fmt(&self, f: &mut fmt::Formatter<'_>) -> fmt::Result {
        write!(f, "V{}{}", self.a, self.b)
    }
}

impl Val for PV {
    const TRACKED: bool = false;
    fn mk(code: u8) -> Self {
        let (a, b) = ab(code);
        PV { a, b }
    }
    fn code(&self) -> u8 {
        code_of(self.a, self.b)
    }
}

/// Tracked value: the registry of `mc::el` sees every construction, clone
/// and drop (C20). key = code, id unused.
#[derive(Clone, PartialEq)]
struct TV(Tracked);

impl Default for TV {
    fn default() -> Self {
        TV(Tracked::mk(0, 0))
    }
}

impl std::hash::Hash for TV {
    fn hash<H: std::hash::Hasher>(&self, h: &mut H) {
        ab(self.0.key()).0.hash(h)
    }
}

impl fmt::Debug for TV {
    fn fmt(&self, f: &mut fmt::Formatter<'_>) -> fmt::Result {
        write!(f, "T{}", self.0.key())
    }
}

impl Val for TV {
    const TRACKED: bool = true;
    fn mk(code: u8) -> Self {
        TV(Tracked::mk(code, 0))
    }
    fn code(&self) -> u8 {
        self.0.key()
    }
}
