//! Harness `diff` (C18): VectorDiff::map commutes with apply; apply performs
//! the documented change and panics exactly for insert/set/remove past the
//! end. Exhaustive over all vectors up to a small length, all eleven diff
//! kinds with every index/length up to len+2, every payload up to a small
//! length, four element mappings.

use std::{
    panic::{catch_unwind, AssertUnwindSafe},
    time::Instant,
};

use eyeball_im::VectorDiff;
use imbl::Vector;
use mc::{ev, explore};
use serde_json::json;

type D = VectorDiff<u8>;

/// Documented meaning on a plain Vec; None = must panic.
fn spec(d: &D, v: &[u8]) -> Option<Vec<u8>> {
    let mut v = v.to_vec();
    match d {
        VectorDiff::Append { values } => v.extend(values.iter().copied()),
        VectorDiff::Clear => v.clear(),
        VectorDiff::PushFront { value } => v.insert(0, *value),
        VectorDiff::PushBack { value } => v.push(*value),
        VectorDiff::PopFront => {
            if !v.is_empty() {
                v.remove(0);
            }
        }
        VectorDiff::PopBack => {
            v.pop();
        }
        VectorDiff::Insert { index, value } => {
            if *index > v.len() {
                return None;
            }
            v.insert(*index, *value)
        }
        VectorDiff::Set { index, value } => {
            if *index >= v.len() {
                return None;
            }
            v[*index] = *value
        }
        VectorDiff::Remove { index } => {
            if *index >= v.len() {
                return None;
            }
            v.remove(*index);
        }
        VectorDiff::Truncate { length } => {
            if *length < v.len() {
                v.truncate(*length)
            }
        }
        VectorDiff::Reset { values } => v = values.iter().copied().collect(),
    }
    Some(v)
}

fn all_vecs(max_len: usize, nvals: u8) -> Vec<Vec<u8>> {
    let mut out = vec![vec![]];
    let mut cur = vec![vec![]];
    for _ in 0..max_len {
        let mut next = Vec::new();
        for v in &cur {
            for x in 0..nvals {
                let mut w: Vec<u8> = v.clone();
                w.push(x);
                next.push(w);
            }
        }
        out.extend(next.iter().cloned());
        cur = next;
    }
    out
}

fn all_diffs(len: usize, payloads: &[Vec<u8>], nvals: u8) -> Vec<D> {
    let mut ds: Vec<D> = vec![VectorDiff::Clear, VectorDiff::PopFront, VectorDiff::PopBack];
    for p in payloads {
        ds.push(VectorDiff::Append { values: p.iter().copied().collect() });
        ds.push(VectorDiff::Reset { values: p.iter().copied().collect() });
    }
    for x in 0..nvals {
        ds.push(VectorDiff::PushFront { value: x });
        ds.push(VectorDiff::PushBack { value: x });
        for i in 0..=len + 2 {
            ds.push(VectorDiff::Insert { index: i, value: x });
            ds.push(VectorDiff::Set { index: i, value: x });
        }
    }
    for i in 0..=len + 2 {
        ds.push(VectorDiff::Remove { index: i });
        ds.push(VectorDiff::Truncate { length: i });
    }
    ds
}

fn try_apply<T: Clone>(d: VectorDiff<T>, v: &Vector<T>) -> Option<Vector<T>> {
    let mut v = v.clone();
    catch_unwind(AssertUnwindSafe(move || {
        d.apply(&mut v);
        v
    }))
    .ok()
}

struct Out {
    cases: u64,
    applies: u64,
    panics_expected: u64,
    violations: Vec<(String, String)>,
    samples: Vec<serde_json::Value>,
}

fn check_mapping<U: Clone + PartialEq + std::fmt::Debug>(v: &[u8], d: &D, name: &str, f: impl Fn(u8) -> U + Copy, out: &mut Out) {
    out.cases += 1;
    let iv: Vector<u8> = v.iter().copied().collect();
    let lhs_in: Vector<U> = v.iter().map(|x| f(*x)).collect();
    let mapped = d.clone().map(f);
    let lhs = try_apply(mapped, &lhs_in);
    let rhs = try_apply(d.clone(), &iv).map(|r| r.into_iter().map(f).collect::<Vector<U>>());
    out.applies += 2;
    let exp = spec(d, v).map(|r| r.into_iter().map(f).collect::<Vector<U>>());
    if exp.is_none() {
        out.panics_expected += 1;
    }
    if lhs != rhs {
        out.violations.push((
            format!("map-does-not-commute/{}/{}", mc::rep::diff_kind(d), name),
            format!("vector {:?}, diff {:?}, mapping {name}: apply(map(d), map(v)) = {:?} but map(apply(d, v)) = {:?} (None = panicked)", v, d, lhs, rhs),
        ));
    } else if rhs != exp {
        out.violations.push((
            format!("apply-differs-from-documented-meaning/{}", mc::rep::diff_kind(d)),
            format!("vector {:?}, diff {:?}: apply gives {:?}, the documented meaning gives {:?} (None = panic)", v, d, rhs, exp),
        ));
    }
}

fn payload_len<T: Clone>(d: &VectorDiff<T>) -> Option<usize> {
    match d {
        VectorDiff::Append { values } | VectorDiff::Reset { values } => Some(values.len()),
        _ => None,
    }
}

fn spec16(d: &VectorDiff<u16>, v: &[u16]) -> Option<Vec<u16>> {
    let mut v = v.to_vec();
    match d {
        VectorDiff::Append { values } => v.extend(values.iter().copied()),
        VectorDiff::Clear => v.clear(),
        VectorDiff::PushFront { value } => v.insert(0, *value),
        VectorDiff::PushBack { value } => v.push(*value),
        VectorDiff::PopFront => {
            if !v.is_empty() {
                v.remove(0);
            }
        }
        VectorDiff::PopBack => {
            v.pop();
        }
        VectorDiff::Insert { index, value } => {
            if *index > v.len() {
                return None;
            }
            v.insert(*index, *value)
        }
        VectorDiff::Set { index, value } => {
            if *index >= v.len() {
                return None;
            }
            v[*index] = *value
        }
        VectorDiff::Remove { index } => {
            if *index >= v.len() {
                return None;
            }
            v.remove(*index);
        }
        VectorDiff::Truncate { length } => {
            if *length < v.len() {
                v.truncate(*length)
            }
        }
        VectorDiff::Reset { values } => v = values.iter().copied().collect(),
    }
    Some(v)
}

fn check_big<U: Clone + PartialEq + std::fmt::Debug>(v: &[u16], d: &VectorDiff<u16>, name: &str, f: impl Fn(u16) -> U + Copy, out: &mut Out) {
    out.cases += 1;
    let iv: Vector<u16> = v.iter().copied().collect();
    let lhs_in: Vector<U> = v.iter().map(|x| f(*x)).collect();
    let lhs = try_apply(d.clone().map(f), &lhs_in);
    let rhs = try_apply(d.clone(), &iv).map(|r| r.into_iter().map(f).collect::<Vector<U>>());
    out.applies += 2;
    let exp = spec16(d, v).map(|r| r.into_iter().map(f).collect::<Vector<U>>());
    if exp.is_none() {
        out.panics_expected += 1;
    }
    let kind = mc::rep::diff_kind(d);
    if lhs != rhs {
        out.violations.push((format!("map-does-not-commute/{kind}/{name}/large"), format!("vector of length {}, {kind} with payload length {:?}, mapping {name}: apply(map(d), map(v)) differs from map(apply(d, v))", v.len(), payload_len(d))));
    } else if rhs != exp {
        out.violations.push((format!("apply-differs-from-documented-meaning/{kind}/large"), format!("vector of length {}, {kind} (payload length {:?}): apply differs from the documented meaning (or panics / fails to panic)", v.len(), payload_len(d))));
    }
}

fn main() {
    explore::install_quiet_panic_hook();
    let cli = ev::parse_cli();
    let t0 = Instant::now();
    let quick = cli.tier == "quick";
    let (max_len, max_payload, nvals) = if quick { (3, 2, 3u8) } else { (5, 3, 3u8) };
    let payloads = all_vecs(max_payload, nvals);
    let mut out = Out { cases: 0, applies: 0, panics_expected: 0, violations: vec![], samples: vec![] };
    let mut pairs = 0u64;
    for v in all_vecs(max_len, nvals) {
        for d in all_diffs(v.len(), &payloads, nvals) {
            pairs += 1;
            // identity mapping returns an equal diff
            let idm = d.clone().map(|x| x);
            out.cases += 1;
            if idm != d {
                out.violations.push((format!("map-identity/{}", mc::rep::diff_kind(&d)), format!("diff {:?} mapped with the identity became {:?}", d, idm)));
            }
            check_mapping(&v, &d, "identity", |x| x, &mut out);
            check_mapping(&v, &d, "plus10", |x| x as u16 + 10, &mut out);
            check_mapping(&v, &d, "constant", |_| 7u8, &mut out);
            check_mapping(&v, &d, "to_string", |x| format!("s{x}"), &mut out);
            if out.samples.len() < 4 && pairs % 997 == 1 {
                out.samples.push(json!({"vector": v, "diff": format!("{:?}", d), "documented_result": format!("{:?}", spec(&d, &v))}));
            }
        }
    }
    // Shapes that cross imbl's internal chunking (leaves of 64 elements):
    // every payload length 0..=max_big with canonical ordered content on
    // vectors of selected lengths, and every index on those vectors.
    // Round 7 (seeded C18-13: a "map in batches of 256" rewrite that rotates payloads of 257 items or more)
    // raised the dense range and added isolated lengths around 1024 and around imbl's second tree level (64 * 64).
    let max_big: usize = if quick { 520 } else { 1100 };
    let extra_big: &[usize] = if quick { &[1023, 1024, 1025, 4095, 4096, 4097, 4161] } else { &[2047, 2048, 2049, 4095, 4096, 4097, 4161, 8191, 8192, 8193, 12289] };
    let mut big_pairs = 0u64;
    for vlen in [0usize, 1, 63, 64, 65, 129] {
        let v: Vec<u16> = (0..vlen as u16).collect();
        let mut ds: Vec<VectorDiff<u16>> = vec![VectorDiff::Clear, VectorDiff::PopFront, VectorDiff::PopBack, VectorDiff::PushFront { value: 9000 }, VectorDiff::PushBack { value: 9001 }];
        for plen in (0..=max_big).chain(extra_big.iter().copied()) {
            let payload: Vector<u16> = (0..plen as u16).map(|x| 1000 + x).collect();
            ds.push(VectorDiff::Append { values: payload.clone() });
            ds.push(VectorDiff::Reset { values: payload });
        }
        for i in 0..=vlen + 1 {
            ds.push(VectorDiff::Insert { index: i, value: 7777 });
            ds.push(VectorDiff::Set { index: i, value: 7778 });
            ds.push(VectorDiff::Remove { index: i });
            ds.push(VectorDiff::Truncate { length: i });
        }
        for d in ds {
            big_pairs += 1;
            out.cases += 1;
            if d.clone().map(|x| x) != d {
                out.violations.push((format!("map-identity/{}", mc::rep::diff_kind(&d)), format!("a diff of kind {} on a vector of length {vlen} mapped with the identity is not equal to itself (payload length {:?})", mc::rep::diff_kind(&d), payload_len(&d))));
            }
            check_big(&v, &d, "plus10", |x| x as u32 + 10, &mut out);
            check_big(&v, &d, "to_string", |x| format!("s{x}"), &mut out);
        }
    }
    pairs += big_pairs;
    let wall = t0.elapsed().as_secs_f64();
    let mut seen = std::collections::BTreeSet::new();
    let mut replays = Vec::new();
    for (sig, detail) in &out.violations {
        if seen.insert(sig.clone()) && replays.len() < 10 {
            let dir = format!("{}/replays/C18", ev::verif_dir());
            let _ = std::fs::create_dir_all(&dir);
            let p = format!("{dir}/C18-mc-diff-{}.json", replays.len());
            std::fs::write(&p, serde_json::to_string_pretty(&json!({"engine": "seqmc", "bin": "mc-diff", "property": "C18", "tier": cli.tier, "signature": sig, "detail": detail,
                "replay_cmd": "./check C18 quick  (the enumeration is exhaustive and takes under a second; the case is re-found deterministically)"})).unwrap()).unwrap();
            println!("VIOLATION property=C18 replay={p}");
            eprintln!("  {sig}: {detail}");
            replays.push(p);
        }
    }
    let part = json!({
        "property_id": "C18", "tier": cli.tier, "seed": cli.seed, "level": "model_checking",
        "coverage": {
            "engine": "seqmc",
            "evaluations": out.cases,
            "distinct_nontrivial": pairs,
            "rule": "every vector of length 0..=max_len over 3 values x every diff of all eleven kinds with every index/length 0..=len+2 and every payload of length 0..=max_payload x four mappings (identity, +10 into u16, constant, to String) plus the identity-equality check; plus large shapes: vectors of length 0/1/63/64/65/129 x Append and Reset with every payload length 0..=max_big and the isolated lengths listed under bounds (ordered distinct content, crossing imbl's 64-element leaves) and every index for the other kinds; distinct_nontrivial = distinct (vector, diff) pairs",
            "samples": out.samples,
            "states": pairs.max(1),
            "transitions": out.applies.max(1),
            "traces_validated_against_impl": out.cases,
            "exhaustive": out.violations.is_empty(),
            "cap_hit": false,
            "bounds": {"max_len": max_len, "max_payload_len": max_payload, "values": nvals, "large_shapes": {"vector_lengths": [0, 1, 63, 64, 65, 129], "payload_lengths": format!("0..={max_big} and {extra_big:?}")}},
            "interesting_events": {"cases_that_must_panic": out.panics_expected},
            "violation_replays": replays,
        },
        "assumptions": ["imbl::Vector trusted", "element values from a 3-element domain"],
        "wall_s": wall,
        "violations": out.violations.len(),
    });
    let dir = format!("{}/evidence/parts", ev::verif_dir());
    let _ = std::fs::create_dir_all(&dir);
    std::fs::write(format!("{dir}/C18.mc-diff.json"), serde_json::to_string_pretty(&part).unwrap()).unwrap();
    eprintln!("[mc-diff] C18 {}: {} cases over {} (vector, diff) pairs, {} must-panic cases, {} violations, {:.1}s", cli.tier, out.cases, pairs, out.panics_expected, out.violations.len(), wall);
    if cli.replay.is_some() {
        eprintln!("replay of C18 = rerun of the exhaustive enumeration");
    }
    std::process::exit(if !out.violations.is_empty() {
        1
    } else if out.panics_expected == 0 {
        2
    } else {
        0
    });
}
