// Transparent taps, limit sources and stage construction.

type BoxS<I> = Pin<Box<dyn Stream<Item = I>>>;
type LimS = Pin<Box<dyn Stream<Item = usize>>>;

/// What passed the taps during one top-level poll, in time order.
#[derive(Debug)]
enum Evt<E> {
    SrcPolled(usize),
    SrcItem(usize, Vec<VectorDiff<E>>),
    SrcEnd(usize),
    SrcPending(usize),
    LimPolled(usize),
    LimItem(usize, usize),
    LimEnd(usize),
    LimPending(usize),
    /// the stage polled its input / its limit stream again after that stream
    /// had returned `Ready(None)` (forbidden by the `Stream` contract)
    SrcPolledAfterEnd(usize),
    LimPolledAfterEnd(usize),
}

type Log<E> = Rc<RefCell<Vec<Evt<E>>>>;

trait Item<E: El>: VectorDiffContainer<Element = E> + Sized + 'static {
    const BATCHED: bool;
    fn to_vec(&self) -> Vec<VectorDiff<E>>;
    fn from_sub(sub: eyeball_im::VectorSubscriber<E>) -> (Vector<E>, BoxS<Self>);
    /// `filter_map` changes the item type through a private type family, so
    /// it is instantiated per concrete item type.
    fn filter_map_stage<O>(o: O) -> (Vector<E>, BoxS<Self>)
    where
        O: VectorObserver<E>,
        O::Stream: Stream<Item = Self> + 'static;
}

fn fm<E: El>(e: E) -> Option<E> {
    (e.key() != 0).then(|| E::mk(e.key(), e.id() + 1000))
}

impl<E: El> Item<E> for VectorDiff<E> {
    const BATCHED: bool = false;
    fn to_vec(&self) -> Vec<VectorDiff<E>> {
        vec![self.clone()]
    }
    fn from_sub(sub: eyeball_im::VectorSubscriber<E>) -> (Vector<E>, BoxS<Self>) {
        let (v, s) = VectorObserver::into_parts(sub);
        (v, Box::pin(s))
    }
    fn filter_map_stage<O>(o: O) -> (Vector<E>, BoxS<Self>)
    where
        O: VectorObserver<E>,
        O::Stream: Stream<Item = Self> + 'static,
    {
        let (v, s) = o.filter_map(fm::<E>);
        (v, Box::pin(s))
    }
}

impl<E: El> Item<E> for Vec<VectorDiff<E>> {
    const BATCHED: bool = true;
    fn to_vec(&self) -> Vec<VectorDiff<E>> {
        self.clone()
    }
    fn from_sub(sub: eyeball_im::VectorSubscriber<E>) -> (Vector<E>, BoxS<Self>) {
        let (v, s) = VectorObserver::into_parts(sub.batched());
        (v, Box::pin(s))
    }
    fn filter_map_stage<O>(o: O) -> (Vector<E>, BoxS<Self>)
    where
        O: VectorObserver<E>,
        O::Stream: Stream<Item = Self> + 'static,
    {
        let (v, s) = o.filter_map(fm::<E>);
        (v, Box::pin(s))
    }
}

/// Forwards `poll_next` and the caller's context untouched; logs what passes.
struct Tap<E: El, I: Item<E>> {
    inner: BoxS<I>,
    stage: usize,
    log: Log<E>,
    ended: bool,
}

impl<E: El, I: Item<E>> Stream for Tap<E, I> {
    type Item = I;
    fn poll_next(self: Pin<&mut Self>, cx: &mut Context<'_>) -> Poll<Option<I>> {
        let this = self.get_mut();
        if this.ended {
            // behave like a fused stream, but report the misuse
            this.log.borrow_mut().push(Evt::SrcPolledAfterEnd(this.stage));
            return Poll::Ready(None);
        }
        this.log.borrow_mut().push(Evt::SrcPolled(this.stage));
        let r = this.inner.as_mut().poll_next(cx);
        this.ended = matches!(r, Poll::Ready(None));
        let e = match &r {
            Poll::Ready(Some(i)) => Evt::SrcItem(this.stage, i.to_vec()),
            Poll::Ready(None) => Evt::SrcEnd(this.stage),
            Poll::Pending => Evt::SrcPending(this.stage),
        };
        this.log.borrow_mut().push(e);
        r
    }
}

struct LimTap<E: El> {
    inner: LimS,
    stage: usize,
    log: Log<E>,
    ended: bool,
}

impl<E: El> Stream for LimTap<E> {
    type Item = usize;
    fn poll_next(self: Pin<&mut Self>, cx: &mut Context<'_>) -> Poll<Option<usize>> {
        let this = self.get_mut();
        if this.ended {
            this.log.borrow_mut().push(Evt::LimPolledAfterEnd(this.stage));
            return Poll::Ready(None);
        }
        this.log.borrow_mut().push(Evt::LimPolled(this.stage));
        let r = this.inner.as_mut().poll_next(cx);
        this.ended = matches!(r, Poll::Ready(None));
        let e = match &r {
            Poll::Ready(Some(v)) => Evt::LimItem(this.stage, *v),
            Poll::Ready(None) => Evt::LimEnd(this.stage),
            Poll::Pending => Evt::LimPending(this.stage),
        };
        this.log.borrow_mut().push(e);
        r
    }
}

/// A limit source that delivers every announced value, one by one, and
/// registers the waker correctly by construction.
#[derive(Default)]
struct QueueState {
    q: VecDeque<usize>,
    waker: Option<Waker>,
    closed: bool,
    /// `Ready(None)` was returned
    ended: bool,
    /// ... and the stream was polled again after that, which the `Stream`
    /// contract forbids (a stream that is not fused may panic then)
    polled_after_end: bool,
}

struct QueueStream(Rc<RefCell<QueueState>>);

impl Stream for QueueStream {
    type Item = usize;
    fn poll_next(self: Pin<&mut Self>, cx: &mut Context<'_>) -> Poll<Option<usize>> {
        let mut s = self.0.borrow_mut();
        if let Some(v) = s.q.pop_front() {
            Poll::Ready(Some(v))
        } else if s.closed {
            if s.ended {
                s.polled_after_end = true;
            }
            s.ended = true;
            Poll::Ready(None)
        } else {
            s.waker = Some(cx.waker().clone());
            Poll::Pending
        }
    }
}

enum LimCtl {
    None,
    Obs(Option<Observable<usize>>),
    Queue(Rc<RefCell<QueueState>>),
}

impl LimCtl {
    fn polled_after_end(&self) -> bool {
        match self {
            LimCtl::Queue(q) => q.borrow().polled_after_end,
            _ => false,
        }
    }
    fn set(&mut self, v: usize) {
        match self {
            LimCtl::Obs(Some(o)) => {
                Observable::set(o, v);
            }
            LimCtl::Queue(q) => {
                let w = {
                    let mut s = q.borrow_mut();
                    s.q.push_back(v);
                    s.waker.take()
                };
                if let Some(w) = w {
                    w.wake();
                }
            }
            _ => unreachable!("SetLimit on a stage without a live limit source"),
        }
    }
    fn drop_source(&mut self) {
        match self {
            LimCtl::Obs(o) => {
                o.take();
            }
            LimCtl::Queue(q) => {
                let w = {
                    let mut s = q.borrow_mut();
                    s.closed = true;
                    s.waker.take()
                };
                if let Some(w) = w {
                    w.wake();
                }
            }
            LimCtl::None => {}
        }
    }
}

fn make_limit<E: El>(src: LimSrc, stage: usize, obs_init: u8, log: &Log<E>) -> (LimS, LimCtl) {
    let (inner, ctl): (LimS, LimCtl) = match src {
        LimSrc::Obs => {
            let o = Observable::new(obs_init as usize);
            let s = Observable::subscribe(&o);
            (Box::pin(s), LimCtl::Obs(Some(o)))
        }
        LimSrc::ObsReset => {
            let o = Observable::new(obs_init as usize);
            let s = Observable::subscribe_reset(&o);
            (Box::pin(s), LimCtl::Obs(Some(o)))
        }
        LimSrc::Queue => {
            let q = Rc::new(RefCell::new(QueueState::default()));
            (Box::pin(QueueStream(q.clone())), LimCtl::Queue(q))
        }
    };
    (Box::pin(LimTap { inner, stage, log: log.clone(), ended: false }), ctl)
}

/// A purely dynamic adapter kept as a value so the next stage can be built on
/// "the adapter itself".
enum DynAd<E: El, I: Item<E>> {
    Head(eyeball_im_util::vector::Head<BoxS<I>, LimS>),
    Tail(eyeball_im_util::vector::Tail<BoxS<I>, LimS>),
    Skip(eyeball_im_util::vector::Skip<BoxS<I>, LimS>),
    #[allow(dead_code)]
    Never(PhantomData<fn() -> E>),
}

enum Built<E: El, I: Item<E>> {
    Pair(Vector<E>, BoxS<I>),
    /// the adapter value itself, plus the initial values its constructor
    /// returned (None for the purely dynamic constructors)
    Dyn(DynAd<E, I>, Option<Vector<E>>),
}

impl<E: El, I: Item<E>> DynAd<E, I> {
    /// What the adapter hands to a following stage.
    fn into_pair(self) -> (Vector<E>, BoxS<I>) {
        match self {
            DynAd::Head(h) => {
                let (v, s) = h.into_parts();
                (v, Box::pin(s))
            }
            DynAd::Tail(h) => {
                let (v, s) = h.into_parts();
                (v, Box::pin(s))
            }
            DynAd::Skip(h) => {
                let (v, s) = h.into_parts();
                (v, Box::pin(s))
            }
            DynAd::Never(_) => unreachable!(),
        }
    }
    /// As the last stage: the view starts empty, the adapter is the stream.
    fn into_stream(self) -> BoxS<I> {
        match self {
            DynAd::Head(h) => Box::pin(h),
            DynAd::Tail(h) => Box::pin(h),
            DynAd::Skip(h) => Box::pin(h),
            DynAd::Never(_) => unreachable!(),
        }
    }
}

fn pass<E: El>(e: &E) -> bool {
    e.key() != 0
}

/// Build a non-dynamic-result stage on any observer.
fn build_fixed<E: El, I: Item<E>, O>(o: O, kind: StageKind, stage: usize, obs_init: u8, log: &Log<E>) -> (Vector<E>, BoxS<I>, LimCtl)
where
    O: VectorObserver<E>,
    O::Stream: Stream<Item = I> + 'static,
{
    match kind {
        StageKind::Head(Lim::Static(n)) => {
            let (v, s) = o.head(n as usize);
            (v, Box::pin(s), LimCtl::None)
        }
        StageKind::Tail(Lim::Static(n)) => {
            let (v, s) = o.tail(n as usize);
            (v, Box::pin(s), LimCtl::None)
        }
        StageKind::Skip(Lim::Static(n)) => {
            let (v, s) = o.skip(n as usize);
            (v, Box::pin(s), LimCtl::None)
        }
        StageKind::Head(Lim::DynInit(n, src)) => {
            let (l, ctl) = make_limit(src, stage, obs_init, log);
            let (v, s) = o.dynamic_head_with_initial_value(n as usize, l);
            (v, Box::pin(s), ctl)
        }
        StageKind::Tail(Lim::DynInit(n, src)) => {
            let (l, ctl) = make_limit(src, stage, obs_init, log);
            let (v, s) = o.dynamic_tail_with_initial_value(n as usize, l);
            (v, Box::pin(s), ctl)
        }
        StageKind::Skip(Lim::DynInit(n, src)) => {
            let (l, ctl) = make_limit(src, stage, obs_init, log);
            let (v, s) = o.dynamic_skip_with_initial_count(n as usize, l);
            (v, Box::pin(s), ctl)
        }
        StageKind::Filter => {
            let (v, s) = o.filter(pass::<E>);
            (v, Box::pin(s), LimCtl::None)
        }
        StageKind::FilterMap => {
            let (v, s) = I::filter_map_stage(o);
            (v, s, LimCtl::None)
        }
        StageKind::Sort => {
            let (v, s) = o.sort();
            (v, Box::pin(s), LimCtl::None)
        }
        StageKind::SortBy => {
            let (v, s) = o.sort_by(|a: &E, b: &E| a.key().cmp(&b.key()));
            (v, Box::pin(s), LimCtl::None)
        }
        StageKind::SortByKey => {
            let (v, s) = o.sort_by_key(|a: &E| a.key());
            (v, Box::pin(s), LimCtl::None)
        }
        StageKind::Head(Lim::Dyn(_)) | StageKind::Tail(Lim::Dyn(_)) | StageKind::Skip(Lim::Dyn(_)) => unreachable!(),
    }
}

/// Copy of the library's `EmptyLimitStream` / `EmptyCountStream`.
struct NoLimit;
impl Stream for NoLimit {
    type Item = usize;
    fn poll_next(self: Pin<&mut Self>, _cx: &mut Context<'_>) -> Poll<Option<usize>> {
        Poll::Ready(None)
    }
}

/// Build any stage on an erased (values, stream) pair.
fn build_on_pair<E: El, I: Item<E>>(values: Vector<E>, s: BoxS<I>, kind: StageKind, stage: usize, obs_init: u8, log: &Log<E>, via_adapter: bool, static_value: bool) -> (Built<E, I>, LimCtl) {
    if static_value {
        // A statically limited Head/Tail/Skip kept as a value: `tail(n)` is
        // `dynamic_tail_with_initial_value(n, EmptyLimitStream)` (traits.rs), the
        // library's `EmptyLimitStream` cannot be constructed outside the crate
        // (`non_exhaustive`), `NoLimit` below is a copy of it: always `Ready(None)`.
        match kind {
            StageKind::Head(Lim::Static(n)) => {
                let (v, h) = (values, s).dynamic_head_with_initial_value(n as usize, Box::pin(NoLimit) as LimS);
                return (Built::Dyn(DynAd::Head(h), Some(v)), LimCtl::None);
            }
            StageKind::Tail(Lim::Static(n)) => {
                let (v, h) = (values, s).dynamic_tail_with_initial_value(n as usize, Box::pin(NoLimit) as LimS);
                return (Built::Dyn(DynAd::Tail(h), Some(v)), LimCtl::None);
            }
            StageKind::Skip(Lim::Static(n)) => {
                let (v, h) = (values, s).dynamic_skip_with_initial_count(n as usize, Box::pin(NoLimit) as LimS);
                return (Built::Dyn(DynAd::Skip(h), Some(v)), LimCtl::None);
            }
            _ => {}
        }
    }
    if via_adapter {
        // keep the dynamic-with-initial-value adapter as a value so that the
        // next stage is built on "the adapter itself" (into_parts with a
        // non-zero limit)
        match kind {
            StageKind::Head(Lim::DynInit(n, src)) => {
                let (l, ctl) = make_limit(src, stage, obs_init, log);
                let (v, h) = (values, s).dynamic_head_with_initial_value(n as usize, l);
                return (Built::Dyn(DynAd::Head(h), Some(v)), ctl);
            }
            StageKind::Tail(Lim::DynInit(n, src)) => {
                let (l, ctl) = make_limit(src, stage, obs_init, log);
                let (v, h) = (values, s).dynamic_tail_with_initial_value(n as usize, l);
                return (Built::Dyn(DynAd::Tail(h), Some(v)), ctl);
            }
            StageKind::Skip(Lim::DynInit(n, src)) => {
                let (l, ctl) = make_limit(src, stage, obs_init, log);
                let (v, h) = (values, s).dynamic_skip_with_initial_count(n as usize, l);
                return (Built::Dyn(DynAd::Skip(h), Some(v)), ctl);
            }
            _ => {}
        }
    }
    match kind {
        StageKind::Head(Lim::Dyn(src)) => {
            let (l, ctl) = make_limit(src, stage, obs_init, log);
            (Built::Dyn(DynAd::Head((values, s).dynamic_head(l)), None), ctl)
        }
        StageKind::Tail(Lim::Dyn(src)) => {
            let (l, ctl) = make_limit(src, stage, obs_init, log);
            (Built::Dyn(DynAd::Tail((values, s).dynamic_tail(l)), None), ctl)
        }
        StageKind::Skip(Lim::Dyn(src)) => {
            let (l, ctl) = make_limit(src, stage, obs_init, log);
            (Built::Dyn(DynAd::Skip((values, s).dynamic_skip(l)), None), ctl)
        }
        _ => {
            let (v, s, ctl) = build_fixed::<E, I, _>((values, s), kind, stage, obs_init, log);
            (Built::Pair(v, s), ctl)
        }
    }
}

/// Build a stage directly on a dynamic adapter value ("the adapter itself as
/// observer"). A dynamic stage on top of a dynamic stage goes through
/// `into_parts` (which is what the extension method does internally).
fn build_on_adapter<E: El, I: Item<E>>(ad: DynAd<E, I>, kind: StageKind, stage: usize, obs_init: u8, log: &Log<E>) -> (Built<E, I>, LimCtl) {
    if matches!(kind.lim(), Some(Lim::Dyn(_))) {
        let (v, s) = ad.into_pair();
        return build_on_pair(v, s, kind, stage, obs_init, log, false, false);
    }
    let (v, s, ctl) = match ad {
        DynAd::Head(h) => build_fixed::<E, I, _>(h, kind, stage, obs_init, log),
        DynAd::Tail(h) => build_fixed::<E, I, _>(h, kind, stage, obs_init, log),
        DynAd::Skip(h) => build_fixed::<E, I, _>(h, kind, stage, obs_init, log),
        DynAd::Never(_) => unreachable!(),
    };
    (Built::Pair(v, s), ctl)
}
