// Tokens, configuration and the enumeration model.

#[derive(Clone, Copy, Debug, PartialEq, Eq, Hash)]
enum Op {
    /// Append n elements; `keys` encodes their keys in base `nkeys`.
    Append(u8, u8),
    Clear,
    PushFront(u8),
    PushBack(u8),
    PopFront,
    PopBack,
    Insert(u8, u8),
    Set(u8, u8),
    Remove(u8),
    Truncate(u8),
    /// n times set(0, <key 0 element>): a long run of updates in one go
    BurstSet0(u8),
    /// one `append` of n items that all have the given key (payloads beyond
    /// one 64-item imbl chunk)
    AppendRun(u8, u8),
}

#[derive(Clone, Copy, Debug, PartialEq, Eq, Hash)]
enum Tok {
    Op(Op),
    TxnBegin,
    TxnCommit,
    TxnDrop,
    /// Announce a new limit/count to dynamic stage `stage`.
    SetLimit(u8, u8),
    /// Drop the limit source of stage `stage`.
    DropLimit(u8),
    Poll,
    Drain,
    DropVec,
    /// late stacking: build the second stage on the (polled) first one now
    Stack,
}

#[derive(Clone, Copy, Debug, PartialEq, Eq, Hash)]
enum LimSrc {
    /// `Observable::subscribe` (initial value not delivered)
    Obs,
    /// `Observable::subscribe_reset` (initial value delivered first)
    ObsReset,
    /// Harness queue: every announced value is delivered, one by one.
    Queue,
}

#[derive(Clone, Copy, Debug, PartialEq, Eq, Hash)]
enum Lim {
    Static(u8),
    Dyn(LimSrc),
    DynInit(u8, LimSrc),
}

#[derive(Clone, Copy, Debug, PartialEq, Eq, Hash)]
enum StageKind {
    Head(Lim),
    Tail(Lim),
    Skip(Lim),
    Filter,
    FilterMap,
    Sort,
    SortBy,
    SortByKey,
}

impl StageKind {
    fn lim(&self) -> Option<Lim> {
        match self {
            StageKind::Head(l) | StageKind::Tail(l) | StageKind::Skip(l) => Some(*l),
            _ => None,
        }
    }
    fn is_dynamic(&self) -> bool {
        matches!(self.lim(), Some(Lim::Dyn(_)) | Some(Lim::DynInit(..)))
    }
    fn name(&self) -> &'static str {
        match self {
            StageKind::Head(_) => "Head",
            StageKind::Tail(_) => "Tail",
            StageKind::Skip(_) => "Skip",
            StageKind::Filter => "Filter",
            StageKind::FilterMap => "FilterMap",
            StageKind::Sort => "Sort",
            StageKind::SortBy => "SortBy",
            StageKind::SortByKey => "SortByKey",
        }
    }
    /// Property that states this stage's view.
    fn prop(&self) -> &'static str {
        match self {
            StageKind::Head(_) | StageKind::Tail(_) | StageKind::Skip(_) => "C09",
            StageKind::Filter | StageKind::FilterMap => "C10",
            _ => "C11",
        }
    }
}

#[derive(Clone, Copy, Debug, PartialEq, Eq)]
enum Policy {
    Eager,
    Manual,
}

#[derive(Clone, Copy, Debug, PartialEq, Eq)]
enum Alphabet {
    Full,
    Reduced,
    /// representative operations at the front, in the middle and at the back
    /// of larger vectors
    Large,
    /// Insert / Set / Remove at EVERY index of a larger vector (round 7: an
    /// off-by-one that only shows at one particular index of a view of more
    /// than 32 items, seeded C10-13)
    LargeEveryIndex,
    /// no source mutators at all (configurations that are about the initial
    /// values of a very large vector)
    NoOps,
}

#[derive(Clone, Debug)]
struct Cfg {
    stages: Vec<StageKind>,
    batched: bool,
    /// Keys of the initial elements.
    init: Vec<u8>,
    nkeys: u8,
    capacity: usize,
    policy: Policy,
    alphabet: Alphabet,
    txn: bool,
    drop_vec: bool,
    drop_limit: bool,
    max_len: u8,
    /// Largest limit/count announced by `SetLimit` tokens.
    max_limit: u8,
    /// If non-empty: exactly these limits/counts are announced instead of
    /// 0..=max_limit.
    limit_values: Vec<u8>,
    /// offer BurstSet0(n) for these n (needs a capacity above n)
    bursts: Vec<u8>,
    /// Initial value of the limit Observable (Obs / ObsReset sources).
    obs_init: u8,
    /// Build the next stage directly on the adapter value (`adapter.filter(..)`)
    /// instead of through `into_parts` + tap (no per-stage checks above it).
    direct: bool,
    /// Keep `dynamic_*_with_initial_value` adapters as values and build the
    /// next stage on them (into_parts with a non-zero limit).
    via_adapter: bool,
    /// Two stages; the second one is stacked on the first by a `Stack` token
    /// after the first has been polled (it must be a dynamic adapter value).
    late_stack: bool,
    /// `pop_front` calls made after the initial `append` and before anybody
    /// subscribes: the vector's first chunk then does not start at slot 0
    /// (matters for vectors of more than 64 items, imbl's tree mode)
    pre_pop_front: u8,
    /// so many further initial elements, all with key 0, after `init` (runs
    /// of thousands of equal items)
    init_run: u16,
    /// With `late_stack`: the `Stack` token does not drain the chain first, so
    /// the lower adapter may be in the middle of an input item (one of two
    /// diffs handed out, the other one parked) when the next stage is built on it.
    stack_mid_item: bool,
    /// Statically limited Head/Tail/Skip are kept as adapter values too (so that
    /// they can be handed on through `into_parts` after they were polled).
    static_value: bool,
    /// Run the same chain on the plain flavour next to the batched one and
    /// compare the flattened outputs (C13).
    twin: bool,
    /// Property under check (decides how divergences are attributed).
    prop: &'static str,
}

#[derive(Clone, Hash, Debug)]
struct Model {
    vec: Vec<Kid>,
    txn: Option<Vec<Kid>>,
    alive: bool,
    next_id: u16,
    /// per stage: latest announced limit (None: never announced / static)
    announced: Vec<Option<u8>>,
    lim_alive: Vec<bool>,
    stacked: bool,
}

fn fresh(next_id: &mut u16, key: u8) -> Kid {
    let id = *next_id;
    *next_id += 1;
    (key, id)
}

fn op_effect(op: Op, nkeys: u8, v: &mut Vec<Kid>, next_id: &mut u16) {
    match op {
        Op::Append(n, keys) => {
            let mut code = keys;
            for _ in 0..n {
                let k = code % nkeys;
                code /= nkeys;
                let e = fresh(next_id, k);
                v.push(e);
            }
        }
        Op::Clear => v.clear(),
        Op::PushFront(k) => {
            let e = fresh(next_id, k);
            v.insert(0, e)
        }
        Op::PushBack(k) => {
            let e = fresh(next_id, k);
            v.push(e)
        }
        Op::PopFront => {
            if !v.is_empty() {
                v.remove(0);
            }
        }
        Op::PopBack => {
            v.pop();
        }
        Op::Insert(i, k) => {
            let e = fresh(next_id, k);
            v.insert(i as usize, e)
        }
        Op::Set(i, k) => {
            let e = fresh(next_id, k);
            v[i as usize] = e
        }
        Op::Remove(i) => {
            v.remove(i as usize);
        }
        Op::Truncate(n) => {
            if (n as usize) < v.len() {
                v.truncate(n as usize)
            }
        }
        Op::AppendRun(n, k) => {
            for _ in 0..n {
                let e = fresh(next_id, k);
                v.push(e);
            }
        }
        Op::BurstSet0(n) => {
            for _ in 0..n {
                let e = fresh(next_id, 0);
                v[0] = e;
            }
        }
    }
}

fn ops_for(len: u8, cfg: &Cfg, out: &mut Vec<Tok>) {
    let room = cfg.max_len.saturating_sub(len);
    let nk = cfg.nkeys;
    if len > 0 {
        for &n in &cfg.bursts {
            out.push(Tok::Op(Op::BurstSet0(n)));
        }
    }
    match cfg.alphabet {
        Alphabet::Full => {
            if room >= 1 {
                for k in 0..nk {
                    out.push(Tok::Op(Op::PushBack(k)));
                }
                for k in 0..nk {
                    out.push(Tok::Op(Op::PushFront(k)));
                }
            }
            out.push(Tok::Op(Op::PopFront));
            out.push(Tok::Op(Op::PopBack));
            out.push(Tok::Op(Op::Clear));
            for n in 0..=2u8 {
                if n <= room {
                    for code in 0..nk.pow(n as u32) {
                        out.push(Tok::Op(Op::Append(n, code)));
                    }
                }
            }
            if room >= 1 {
                for i in 0..=len {
                    for k in 0..nk {
                        out.push(Tok::Op(Op::Insert(i, k)));
                    }
                }
            }
            for i in 0..len {
                for k in 0..nk {
                    out.push(Tok::Op(Op::Set(i, k)));
                }
            }
            for i in 0..len {
                out.push(Tok::Op(Op::Remove(i)));
            }
            for n in 0..len {
                out.push(Tok::Op(Op::Truncate(n)));
            }
        }
        Alphabet::Large => {
            let mid = len / 2;
            if room >= 1 {
                for k in 0..nk {
                    out.push(Tok::Op(Op::PushBack(k)));
                }
                out.push(Tok::Op(Op::PushFront(nk - 1)));
                out.push(Tok::Op(Op::Insert(mid, 0)));
                if len >= 1 {
                    out.push(Tok::Op(Op::Insert(len - 1, nk - 1)));
                    out.push(Tok::Op(Op::Insert(1.min(len), 0)));
                }
            }
            if room >= 3 {
                out.push(Tok::Op(Op::Append(3, if nk > 1 { 1 + nk } else { 0 })));
            }
            // payloads of more than 64 items (one that passes a filter entirely,
            // one that does not) when the configuration leaves room for them
            if cfg.max_len as usize >= len as usize + 70 {
                out.push(Tok::Op(Op::AppendRun(70, nk - 1)));
                if nk > 1 {
                    out.push(Tok::Op(Op::AppendRun(66, 0)));
                }
            }
            out.push(Tok::Op(Op::PopFront));
            out.push(Tok::Op(Op::PopBack));
            if len > 0 {
                out.push(Tok::Op(Op::Set(mid.min(len - 1), nk - 1)));
                out.push(Tok::Op(Op::Set(len - 1, 0)));
                out.push(Tok::Op(Op::Remove(mid.min(len - 1))));
                out.push(Tok::Op(Op::Remove(0)));
                out.push(Tok::Op(Op::Remove(len - 1)));
            }
            if len >= 3 {
                out.push(Tok::Op(Op::Truncate(len - 2)));
                out.push(Tok::Op(Op::Truncate(2)));
            }
            out.push(Tok::Op(Op::Clear));
        }
        Alphabet::LargeEveryIndex => {
            for i in 0..len {
                if room >= 1 {
                    out.push(Tok::Op(Op::Insert(i, 0)));
                    if nk > 1 {
                        out.push(Tok::Op(Op::Insert(i, nk - 1)));
                    }
                }
                out.push(Tok::Op(Op::Set(i, 0)));
                if nk > 1 {
                    out.push(Tok::Op(Op::Set(i, nk - 1)));
                }
                out.push(Tok::Op(Op::Remove(i)));
                out.push(Tok::Op(Op::Truncate(i)));
            }
            if room >= 1 {
                out.push(Tok::Op(Op::Insert(len, nk - 1)));
            }
        }
        Alphabet::NoOps => {}
        Alphabet::Reduced => {
            if room >= 2 {
                out.push(Tok::Op(Op::Append(2, if nk > 1 { 1 } else { 0 })));
            }
            if room >= 1 {
                for k in 0..nk {
                    out.push(Tok::Op(Op::PushBack(k)));
                }
                out.push(Tok::Op(Op::PushFront(0)));
                if len >= 1 {
                    out.push(Tok::Op(Op::Insert(1, nk - 1)));
                }
            }
            out.push(Tok::Op(Op::PopFront));
            if len > 0 {
                out.push(Tok::Op(Op::PopBack));
                out.push(Tok::Op(Op::Set(0, nk - 1)));
                out.push(Tok::Op(Op::Remove(len - 1)));
                out.push(Tok::Op(Op::Truncate(len - 1)));
            }
        }
    }
}

struct AdpH<E: El>(PhantomData<E>);

impl<E: El> Harness for AdpH<E> {
    type Cfg = Cfg;
    type Tok = Tok;
    type Model = Model;

    fn init(&self, cfg: &Cfg) -> Model {
        let mut next_id = 0;
        let mut vec: Vec<Kid> = cfg.init.iter().map(|k| fresh(&mut next_id, *k)).collect();
        for _ in 0..cfg.init_run {
            vec.push(fresh(&mut next_id, 0));
        }
        for _ in 0..cfg.pre_pop_front {
            if !vec.is_empty() {
                vec.remove(0);
            }
        }
        Model {
            vec,
            txn: None,
            alive: true,
            next_id,
            announced: cfg.stages.iter().map(|_| None).collect(),
            lim_alive: cfg.stages.iter().map(|s| s.is_dynamic()).collect(),
            stacked: !cfg.late_stack,
        }
    }

    fn enabled(&self, cfg: &Cfg, m: &Model, out: &mut Vec<Tok>) {
        if m.alive {
            let len = m.txn.as_ref().map(|t| t.len()).unwrap_or(m.vec.len()) as u8;
            ops_for(len, cfg, out);
            if cfg.txn {
                match m.txn {
                    None => out.push(Tok::TxnBegin),
                    Some(_) => {
                        out.push(Tok::TxnCommit);
                        out.push(Tok::TxnDrop);
                    }
                }
            }
            if cfg.drop_vec && m.txn.is_none() {
                out.push(Tok::DropVec);
            }
            if !m.stacked && m.txn.is_none() {
                out.push(Tok::Stack);
            }
        }
        for (k, s) in cfg.stages.iter().enumerate() {
            if k >= 1 && !m.stacked {
                continue;
            }
            if s.is_dynamic() && m.lim_alive[k] {
                if cfg.limit_values.is_empty() {
                    for n in 0..=cfg.max_limit {
                        out.push(Tok::SetLimit(k as u8, n));
                    }
                } else {
                    for &n in &cfg.limit_values {
                        out.push(Tok::SetLimit(k as u8, n));
                    }
                }
                if cfg.drop_limit {
                    out.push(Tok::DropLimit(k as u8));
                }
            }
        }
        if cfg.policy == Policy::Manual {
            out.push(Tok::Poll);
            out.push(Tok::Drain);
        }
    }

    fn step(&self, cfg: &Cfg, m: &mut Model, t: &Tok) {
        match *t {
            Tok::Op(op) => match m.txn.as_mut() {
                Some(w) => op_effect(op, cfg.nkeys, w, &mut m.next_id),
                None => op_effect(op, cfg.nkeys, &mut m.vec, &mut m.next_id),
            },
            Tok::TxnBegin => m.txn = Some(m.vec.clone()),
            Tok::TxnCommit => m.vec = m.txn.take().unwrap(),
            Tok::TxnDrop => m.txn = None,
            Tok::SetLimit(k, n) => m.announced[k as usize] = Some(n),
            Tok::DropLimit(k) => m.lim_alive[k as usize] = false,
            Tok::Poll | Tok::Drain => {}
            Tok::Stack => m.stacked = true,
            Tok::DropVec => m.alive = false,
        }
    }

    fn run(&self, cfg: &Cfg, toks: &[Tok], st: &mut Stats) -> Result<(), Violation> {
        if E::TRACKED {
            el::reg_reset();
        }
        let r = {
            if cfg.batched {
                let mut w = World::<E, Vec<VectorDiff<E>>>::new(cfg);
                let r = w.exec(toks, st);
                drop(w);
                r
            } else {
                let mut w = World::<E, VectorDiff<E>>::new(cfg);
                let r = w.exec(toks, st);
                drop(w);
                r
            }
        };
        // The element accounting is also made when an oracle of another
        // property stopped the sequence (everything has been dropped by now):
        // a wrong view and a leaked or twice-dropped value often come together.
        if E::TRACKED && r.as_ref().map_or_else(|v| v.prop != "C20", |_| true) {
            let errs = el::reg_errors();
            if !errs.is_empty() {
                return Err(Violation { prop: "C20", step: toks.len(), sig: "tracked-misuse".into(), detail: errs.join("; ") });
            }
            if el::reg_live() != 0 {
                return Err(Violation {
                    prop: "C20",
                    step: toks.len(),
                    sig: "leak".into(),
                    detail: format!("{} element instances still alive after everything was dropped", el::reg_live()),
                });
            }
            if r.is_ok() {
                st.mark("tracked_sequences_balanced");
            }
        }
        r
    }

    fn panic_prop(&self, cfg: &Cfg) -> &'static str {
        match cfg.prop {
            "C12" | "C13" | "C14" | "C15" | "C20" => cfg.prop,
            _ => cfg.stages.last().map(|s| s.prop()).unwrap_or("C09"),
        }
    }
}

fn viol(prop: &'static str, step: usize, sig: impl Into<String>, detail: impl Into<String>) -> Violation {
    Violation { prop, step, sig: sig.into(), detail: detail.into() }
}
