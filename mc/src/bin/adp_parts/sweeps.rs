// Sweeps per property and main.

fn base(prop: &'static str) -> Cfg {
    Cfg {
        stages: vec![],
        batched: false,
        init: vec![],
        nkeys: 1,
        capacity: 16,
        policy: Policy::Eager,
        alphabet: Alphabet::Full,
        txn: true,
        drop_vec: false,
        drop_limit: false,
        max_len: 4,
        max_limit: 5,
        limit_values: vec![],
        bursts: vec![],
        obs_init: 2,
        direct: false,
        via_adapter: false,
        late_stack: false,
        pre_pop_front: 0,
        init_run: 0,
        stack_mid_item: false,
        static_value: false,
        twin: false,
        prop,
    }
}

/// All key patterns of length 0..=max_len over `nkeys` keys.
fn inits(nkeys: u8, max_len: usize) -> Vec<Vec<u8>> {
    let mut out = vec![vec![]];
    let mut cur: Vec<Vec<u8>> = vec![vec![]];
    for _ in 0..max_len {
        let mut next = Vec::new();
        for v in &cur {
            for k in 0..nkeys {
                let mut w = v.clone();
                w.push(k);
                next.push(w);
            }
        }
        out.extend(next.iter().cloned());
        cur = next;
    }
    out
}

fn lim_variants(max_static: u8, full: bool) -> Vec<Lim> {
    let mut v = Vec::new();
    for n in 0..=max_static {
        v.push(Lim::Static(n));
    }
    v.push(Lim::Dyn(LimSrc::Obs));
    v.push(Lim::Dyn(LimSrc::Queue));
    if full {
        v.push(Lim::Dyn(LimSrc::ObsReset));
    }
    for n in 0..=max_static {
        v.push(Lim::DynInit(n, LimSrc::Obs));
        if full {
            v.push(Lim::DynInit(n, LimSrc::Queue));
        }
    }
    v
}

fn hts(l: Lim) -> [StageKind; 3] {
    [StageKind::Head(l), StageKind::Tail(l), StageKind::Skip(l)]
}

struct Plan {
    name: &'static str,
    cfgs: Vec<Cfg>,
    depth: usize,
}

/// Small menu of stages for chains.
fn chain_menu() -> Vec<StageKind> {
    let mut m = Vec::new();
    for l in [Lim::Static(1), Lim::Static(2), Lim::Dyn(LimSrc::Obs), Lim::Dyn(LimSrc::Queue), Lim::DynInit(1, LimSrc::Obs)] {
        m.extend(hts(l));
    }
    m.extend([StageKind::Filter, StageKind::FilterMap, StageKind::Sort, StageKind::SortBy, StageKind::SortByKey]);
    m
}

fn chain_inits() -> Vec<Vec<u8>> {
    vec![vec![], vec![1], vec![1, 0], vec![0, 1, 1], vec![2, 1, 0], vec![1, 2, 0, 1]]
}

fn single_stage_cfgs(prop: &'static str, kinds: &[StageKind], nkeys: u8, init_len: usize, caps: &[usize], policies: &[Policy], flavours: &[bool]) -> Vec<Cfg> {
    let mut cfgs = Vec::new();
    for &kind in kinds {
        for &batched in flavours {
            for init in inits(nkeys, init_len) {
                for &capacity in caps {
                    for &policy in policies {
                        cfgs.push(Cfg { stages: vec![kind], batched, init: init.clone(), nkeys, capacity, policy, ..base(prop) });
                    }
                }
            }
        }
    }
    cfgs
}

fn plans(prop: &str, tier: &str) -> Vec<Plan> {
    let q = tier == "quick";
    let mut out = Vec::new();
    let both = [Policy::Eager, Policy::Manual];
    let fl = [false, true];
    match prop {
        "C09" => {
            let mut kinds = Vec::new();
            for l in lim_variants(4, true) {
                kinds.extend(hts(l));
            }
            let cfgs = single_stage_cfgs("C09", &kinds, 1, 3, &[16, 1], &both, &fl);
            out.push(Plan { name: "c09-single", cfgs, depth: if q { 3 } else { 4 } });
            // limit source dropped, vector dropped
            let mut kinds = Vec::new();
            for l in [Lim::Dyn(LimSrc::Obs), Lim::Dyn(LimSrc::Queue), Lim::DynInit(2, LimSrc::Obs), Lim::DynInit(1, LimSrc::Queue), Lim::Static(2)] {
                kinds.extend(hts(l));
            }
            let mut cfgs = single_stage_cfgs("C09", &kinds, 1, 2, &[16, 1], &[Policy::Manual], &fl);
            for c in &mut cfgs {
                c.drop_limit = true;
                c.drop_vec = true;
                c.alphabet = Alphabet::Reduced;
                c.max_limit = 4;
            }
            out.push(Plan { name: "c09-drops-reduced", cfgs, depth: if q { 4 } else { 5 } });
            // larger vectors and limits
            let mut kinds = Vec::new();
            for l in [Lim::Static(3), Lim::Static(6), Lim::Dyn(LimSrc::Obs), Lim::DynInit(5, LimSrc::Queue), Lim::DynInit(7, LimSrc::Obs)] {
                kinds.extend(hts(l));
            }
            let mut cfgs = Vec::new();
            for &kind in &kinds {
                for batched in fl {
                    for init_len in [5usize, 7] {
                        for capacity in [16usize, 2] {
                            cfgs.push(Cfg { stages: vec![kind], batched, init: vec![0; init_len], nkeys: 1, capacity, alphabet: Alphabet::Large, max_len: 9, limit_values: vec![0, 2, 6, 8], policy: Policy::Manual, ..base("C09") });
                        }
                    }
                }
            }
            out.push(Plan { name: "c09-large", cfgs, depth: if q { 3 } else { 4 } });
            // long runs of updates between two polls (capacity above the run length)
            let mut cfgs = Vec::new();
            for kind in [StageKind::Head(Lim::Static(1)), StageKind::Tail(Lim::Static(1)), StageKind::Skip(Lim::Static(1)), StageKind::Head(Lim::Dyn(LimSrc::Obs)), StageKind::Tail(Lim::DynInit(1, LimSrc::Queue)), StageKind::Skip(Lim::Dyn(LimSrc::Queue))] {
                for batched in fl {
                    for init in [vec![0u8, 1], vec![1u8, 0, 1]] {
                        cfgs.push(Cfg { stages: vec![kind], batched, init: init.iter().map(|k| k % 1).collect(), nkeys: 1, capacity: 128, alphabet: Alphabet::Reduced, bursts: vec![33, 70], policy: Policy::Manual, max_limit: 3, ..base("C09") });
                    }
                }
            }
            out.push(Plan {
                name: "c09-tree",
                cfgs: tree_cfgs(
                    "C09",
                    &[
                        StageKind::Head(Lim::Static(3)),
                        StageKind::Head(Lim::Static(65)),
                        StageKind::Tail(Lim::Static(3)),
                        StageKind::Tail(Lim::Static(65)),
                        StageKind::Skip(Lim::Static(2)),
                        StageKind::Skip(Lim::Static(64)),
                        StageKind::Head(Lim::DynInit(64, LimSrc::Queue)),
                        StageKind::Tail(Lim::DynInit(64, LimSrc::Obs)),
                        StageKind::Skip(Lim::DynInit(1, LimSrc::Queue)),
                    ],
                    1,
                ),
                depth: if q { 2 } else { 3 },
            });
            out.push(Plan { name: "c09-bursts", cfgs, depth: if q { 3 } else { 4 } });
            // Insert / Set / Remove / Truncate at every index of a 66- or 131-item vector: the index equal to
            // the limit, one below and one above it, and the chunk boundaries, for limits inside and beyond one chunk
            out.push(Plan {
                name: "c09-tree-every-index",
                cfgs: every_index(tree_cfgs(
                    "C09",
                    &[
                        StageKind::Head(Lim::Static(3)),
                        StageKind::Head(Lim::Static(65)),
                        StageKind::Tail(Lim::Static(3)),
                        StageKind::Tail(Lim::Static(65)),
                        StageKind::Skip(Lim::Static(2)),
                        StageKind::Skip(Lim::Static(64)),
                        StageKind::Head(Lim::DynInit(64, LimSrc::Queue)),
                        StageKind::Tail(Lim::DynInit(64, LimSrc::Obs)),
                        StageKind::Skip(Lim::DynInit(70, LimSrc::Queue)),
                    ],
                    1,
                )),
                depth: if q { 1 } else { 2 },
            });
        }
        "C10" => {
            let cfgs = single_stage_cfgs("C10", &[StageKind::Filter, StageKind::FilterMap], 2, 3, &[16, 1], &both, &fl);
            out.push(Plan { name: "c10-single", cfgs, depth: if q { 3 } else { 4 } });
            let mut cfgs = single_stage_cfgs("C10", &[StageKind::Filter, StageKind::FilterMap], 2, 2, &[1, 2], &[Policy::Manual], &fl);
            for c in &mut cfgs {
                c.alphabet = Alphabet::Reduced;
                c.drop_vec = true;
            }
            out.push(Plan { name: "c10-lag-reduced", cfgs, depth: if q { 5 } else { 6 } });
            let mut cfgs = Vec::new();
            for kind in [StageKind::Filter, StageKind::FilterMap] {
                for batched in fl {
                    for init in [vec![1u8, 0, 1, 1, 0, 0, 1], vec![0, 0, 1, 0, 1, 0], vec![1, 1, 1, 0, 0]] {
                        for capacity in [16usize, 2] {
                            cfgs.push(Cfg { stages: vec![kind], batched, init: init.clone(), nkeys: 2, capacity, alphabet: Alphabet::Large, max_len: 9, policy: Policy::Manual, ..base("C10") });
                        }
                    }
                }
            }
            out.push(Plan { name: "c10-large", cfgs, depth: if q { 3 } else { 4 } });
            // vectors beyond one imbl chunk (64 items), also with a first chunk that
            // does not start at slot 0
            out.push(Plan { name: "c10-tree", cfgs: tree_cfgs("C10", &[StageKind::Filter, StageKind::FilterMap], 2), depth: if q { 2 } else { 3 } });
            out.push(Plan { name: "c10-tree-every-index", cfgs: every_index(tree_cfgs("C10", &[StageKind::Filter, StageKind::FilterMap], 2)), depth: if q { 1 } else { 2 } });
            // long runs of updates between two polls (capacity above the run length)
            let mut cfgs = Vec::new();
            for kind in [StageKind::Filter, StageKind::FilterMap] {
                for batched in fl {
                    for init in [vec![0u8, 1], vec![1u8, 0, 1]] {
                        cfgs.push(Cfg { stages: vec![kind], batched, init: init.iter().map(|k| k % 2).collect(), nkeys: 2, capacity: 128, alphabet: Alphabet::Reduced, bursts: vec![33, 70], policy: Policy::Manual, max_limit: 3, ..base("C10") });
                    }
                }
            }
            out.push(Plan { name: "c10-bursts", cfgs, depth: if q { 3 } else { 4 } });
        }
        "C11" => {
            let kinds = [StageKind::Sort, StageKind::SortBy, StageKind::SortByKey];
            // a run of thousands of equal items (first, so that a process that dies
            // here - stack exhaustion in the sort - is localised at once)
            let mut cfgs = Vec::new();
            for kind in kinds {
                for batched in fl {
                    cfgs.push(Cfg { stages: vec![kind], batched, init: vec![1, 0, 2], nkeys: 3, capacity: 16, alphabet: Alphabet::NoOps, txn: false, policy: Policy::Manual, drop_vec: true, init_run: 12000, ..base("C11") });
                }
            }
            out.push(Plan { name: "c11-equal-run", cfgs, depth: 1 });
            let cfgs = single_stage_cfgs("C11", &kinds, 3, if q { 2 } else { 3 }, &[16, 1], &both, &fl);
            out.push(Plan { name: "c11-single", cfgs, depth: if q { 3 } else { 4 } });
            let mut cfgs = single_stage_cfgs("C11", &kinds, 3, 2, &[1], &[Policy::Manual], &fl);
            for c in &mut cfgs {
                c.alphabet = Alphabet::Reduced;
                c.drop_vec = true;
            }
            out.push(Plan { name: "c11-lag-reduced", cfgs, depth: if q { 4 } else { 5 } });
            let mut cfgs = Vec::new();
            for kind in kinds {
                for batched in fl {
                    for init in [vec![2u8, 0, 1, 1, 0, 2, 1], vec![0, 1, 2, 0, 1, 2], vec![2, 2, 1, 0, 0]] {
                        for capacity in [16usize, 2] {
                            cfgs.push(Cfg { stages: vec![kind], batched, init: init.clone(), nkeys: 3, capacity, alphabet: Alphabet::Large, max_len: 9, policy: Policy::Manual, ..base("C11") });
                        }
                    }
                }
            }
            out.push(Plan { name: "c11-large", cfgs, depth: if q { 3 } else { 4 } });
            // long runs of updates between two polls (capacity above the run length)
            let mut cfgs = Vec::new();
            for kind in [StageKind::Sort, StageKind::SortBy, StageKind::SortByKey] {
                for batched in fl {
                    for init in [vec![0u8, 1], vec![1u8, 0, 1]] {
                        cfgs.push(Cfg { stages: vec![kind], batched, init: init.iter().map(|k| k % 3).collect(), nkeys: 3, capacity: 128, alphabet: Alphabet::Reduced, bursts: vec![33, 70], policy: Policy::Manual, max_limit: 3, ..base("C11") });
                    }
                }
            }
            out.push(Plan { name: "c11-bursts", cfgs, depth: if q { 3 } else { 4 } });
            out.push(Plan { name: "c11-tree", cfgs: tree_cfgs("C11", &[StageKind::Sort, StageKind::SortBy, StageKind::SortByKey], 3), depth: if q { 2 } else { 3 } });
            out.push(Plan { name: "c11-tree-every-index", cfgs: every_index(tree_cfgs("C11", &[StageKind::Sort, StageKind::SortBy, StageKind::SortByKey], 3)), depth: if q { 1 } else { 2 } });
        }
        "C12" => {
            let menu = chain_menu();
            let mk = |stages: Vec<StageKind>, batched: bool, init: &Vec<u8>, alphabet: Alphabet, capacity: usize| {
                let has_sort = stages.iter().any(|s| matches!(s, StageKind::Sort | StageKind::SortBy | StageKind::SortByKey));
                let nkeys = if has_sort { 3 } else { 2 };
                let init: Vec<u8> = init.iter().map(|k| k % nkeys).collect();
                Cfg { stages, batched, init, nkeys, alphabet, capacity, max_limit: 3, ..base("C12") }
            };
            let mut full2 = Vec::new();
            let mut red2 = Vec::new();
            for a in &menu {
                for b in &menu {
                    for batched in fl {
                        for init in chain_inits() {
                            full2.push(mk(vec![*a, *b], batched, &init, Alphabet::Full, 16));
                            red2.push(mk(vec![*a, *b], batched, &init, Alphabet::Reduced, 16));
                        }
                        red2.push(mk(vec![*a, *b], batched, &vec![1, 0], Alphabet::Reduced, 1));
                    }
                }
            }
            out.push(Plan { name: "c12-len2-full", cfgs: full2, depth: if q { 2 } else { 3 } });
            out.push(Plan { name: "c12-len2-reduced", cfgs: red2, depth: if q { 3 } else { 4 } });
            // the adapter itself as observer (no tap in between)
            let mut direct = Vec::new();
            for lower in [StageKind::Head(Lim::Dyn(LimSrc::Obs)), StageKind::Head(Lim::Dyn(LimSrc::Queue)), StageKind::Skip(Lim::Dyn(LimSrc::Obs)), StageKind::Skip(Lim::Dyn(LimSrc::Queue))] {
                for upper in [
                    StageKind::Filter,
                    StageKind::FilterMap,
                    StageKind::Head(Lim::Static(1)),
                    StageKind::Head(Lim::Static(2)),
                    StageKind::Tail(Lim::Static(1)),
                    StageKind::Tail(Lim::Static(2)),
                    StageKind::Skip(Lim::Static(1)),
                    StageKind::Skip(Lim::DynInit(1, LimSrc::Obs)),
                    StageKind::Head(Lim::Dyn(LimSrc::Queue)),
                ] {
                    for batched in fl {
                        for init in chain_inits() {
                            let mut c = mk(vec![lower, upper], batched, &init, Alphabet::Full, 16);
                            c.direct = true;
                            direct.push(c);
                        }
                    }
                }
            }
            out.push(Plan { name: "c12-direct", cfgs: direct, depth: if q { 2 } else { 3 } });
            // dynamic-with-initial-value adapters used as observers themselves:
            // into_parts is called while the limit is non-zero
            let mut via = Vec::new();
            for lower_l in [Lim::DynInit(1, LimSrc::Obs), Lim::DynInit(2, LimSrc::Queue)] {
                for lower in hts(lower_l) {
                    for upper in [
                        StageKind::Filter,
                        StageKind::FilterMap,
                        StageKind::Head(Lim::Static(1)),
                        StageKind::Tail(Lim::Static(1)),
                        StageKind::Skip(Lim::Static(1)),
                        StageKind::Head(Lim::Dyn(LimSrc::Queue)),
                        StageKind::Tail(Lim::DynInit(1, LimSrc::Obs)),
                    ] {
                        for batched in fl {
                            for init in chain_inits() {
                                for direct in [false, true] {
                                    if direct && matches!(lower, StageKind::Tail(_)) {
                                        continue; // F5 cannot be attributed without a tap above the Tail
                                    }
                                    let mut c = mk(vec![lower, upper], batched, &init, Alphabet::Full, 16);
                                    c.via_adapter = true;
                                    c.direct = direct;
                                    via.push(c);
                                }
                            }
                        }
                    }
                }
            }
            out.push(Plan { name: "c12-dyninit-via-adapter", cfgs: via, depth: if q { 2 } else { 3 } });
            // the second stage is stacked on a dynamic adapter that has already
            // been polled (seen limits and source updates)
            let mut late = Vec::new();
            for lower_l in [Lim::Dyn(LimSrc::Obs), Lim::Dyn(LimSrc::Queue), Lim::DynInit(1, LimSrc::Queue)] {
                for lower in hts(lower_l) {
                    for upper in [StageKind::Filter, StageKind::Head(Lim::Static(1)), StageKind::Tail(Lim::Static(2)), StageKind::Skip(Lim::Static(1))] {
                        for batched in fl {
                            for init in if q { vec![vec![0u8, 1, 1]] } else { vec![vec![1u8, 0], vec![0, 1, 1]] } {
                                for direct in [false, true] {
                                    if direct && matches!(lower, StageKind::Tail(_)) {
                                        continue;
                                    }
                                    let mut c = mk(vec![lower, upper], batched, &init, Alphabet::Reduced, 16);
                                    c.via_adapter = true;
                                    c.late_stack = true;
                                    c.direct = direct;
                                    c.max_limit = 3;
                                    late.push(c);
                                }
                            }
                        }
                    }
                }
            }
            out.push(Plan { name: "c12-late-stack", cfgs: late, depth: if q { 4 } else { 5 } });
            // chains over vectors beyond one imbl chunk
            out.push(Plan {
                name: "c12-tree",
                cfgs: tree_chain_cfgs(
                    "C12",
                    &[
                        vec![StageKind::Filter, StageKind::Sort],
                        vec![StageKind::Sort, StageKind::Filter],
                        vec![StageKind::Skip(Lim::Static(2)), StageKind::Filter],
                        vec![StageKind::Filter, StageKind::Head(Lim::Static(40))],
                        vec![StageKind::Tail(Lim::Static(70)), StageKind::SortBy],
                        vec![StageKind::FilterMap, StageKind::Tail(Lim::Static(3))],
                    ],
                    3,
                ),
                depth: if q { 2 } else { 3 },
            });
            // ... and on one that is in the middle of an input item: manual polls,
            // no drain before the stage is stacked (unbatched: only there a second
            // diff can be parked inside the adapter)
            let mut mid = Vec::new();
            for lower_l in [Lim::DynInit(2, LimSrc::Obs), Lim::DynInit(1, LimSrc::Queue), Lim::Dyn(LimSrc::Queue)] {
                for lower in hts(lower_l) {
                    for upper in [StageKind::Filter, StageKind::Head(Lim::Static(2)), StageKind::Sort] {
                        for init in [vec![0u8, 1, 1], vec![1u8, 0]] {
                            for direct in [false, true] {
                                if direct && matches!(lower, StageKind::Tail(_)) {
                                    continue;
                                }
                                let mut c = mk(vec![lower, upper], false, &init, Alphabet::Reduced, 16);
                                c.via_adapter = true;
                                c.late_stack = true;
                                c.stack_mid_item = true;
                                c.policy = Policy::Manual;
                                c.direct = direct;
                                c.max_limit = 3;
                                mid.push(c);
                            }
                        }
                    }
                }
            }
            out.push(Plan { name: "c12-late-stack-mid-item", cfgs: mid, depth: if q { 4 } else { 5 } });
            // lag inside chains: manual polling, capacity 1, so that a Reset
            // travels up the chain and is followed by index-addressed updates
            let lagmenu = [
                StageKind::Head(Lim::Static(2)),
                StageKind::Tail(Lim::Static(2)),
                StageKind::Skip(Lim::Static(1)),
                StageKind::Filter,
                StageKind::FilterMap,
                StageKind::Sort,
                StageKind::SortBy,
                StageKind::Head(Lim::DynInit(2, LimSrc::Queue)),
            ];
            let mut lag = Vec::new();
            for a in &lagmenu {
                for b in &lagmenu {
                    for batched in fl {
                        for init in [vec![2u8, 1, 0], vec![1u8, 0]] {
                            let mut c = mk(vec![*a, *b], batched, &init, Alphabet::Reduced, 1);
                            c.policy = Policy::Manual;
                            c.txn = false;
                            c.max_limit = 2;
                            lag.push(c);
                        }
                    }
                }
            }
            out.push(Plan { name: "c12-lag-manual", cfgs: lag, depth: if q { 4 } else { 5 } });
            // length 3
            let mut len3 = Vec::new();
            let small: Vec<StageKind> = vec![
                StageKind::Head(Lim::Static(2)),
                StageKind::Tail(Lim::Static(2)),
                StageKind::Skip(Lim::Static(1)),
                StageKind::Head(Lim::Dyn(LimSrc::Obs)),
                StageKind::Tail(Lim::Dyn(LimSrc::Queue)),
                StageKind::Skip(Lim::Dyn(LimSrc::Obs)),
                StageKind::Filter,
                StageKind::FilterMap,
                StageKind::Sort,
                StageKind::SortByKey,
            ];
            let menu3 = if q { small.clone() } else { menu.clone() };
            for a in &menu3 {
                for b in &menu3 {
                    for c in &menu3 {
                        for batched in fl {
                            for init in [vec![1u8, 0], vec![2, 1, 0]] {
                                len3.push(mk(vec![*a, *b, *c], batched, &init, Alphabet::Reduced, 16));
                            }
                        }
                    }
                }
            }
            out.push(Plan { name: "c12-len3-reduced", cfgs: len3, depth: if q { 2 } else { 3 } });
        }
        "C13" => {
            // fixed parameters: batched next to plain
            let mut fixed: Vec<StageKind> = Vec::new();
            for n in 0..=3u8 {
                fixed.extend(hts(Lim::Static(n)));
            }
            fixed.extend([StageKind::Filter, StageKind::FilterMap, StageKind::Sort, StageKind::SortBy, StageKind::SortByKey]);
            let mut cfgs = Vec::new();
            for k in &fixed {
                let nkeys = match k {
                    StageKind::Sort | StageKind::SortBy | StageKind::SortByKey => 3,
                    StageKind::Filter | StageKind::FilterMap => 2,
                    _ => 1,
                };
                for init in inits(nkeys, 2) {
                    for policy in both {
                        cfgs.push(Cfg { stages: vec![*k], batched: true, twin: true, init: init.clone(), nkeys, policy, drop_vec: true, ..base("C13") });
                    }
                }
            }
            out.push(Plan { name: "c13-fixed-twin", cfgs, depth: if q { 3 } else { 4 } });
            let mut cfgs = Vec::new();
            let fixed_small = [
                StageKind::Head(Lim::Static(2)),
                StageKind::Tail(Lim::Static(2)),
                StageKind::Skip(Lim::Static(1)),
                StageKind::Filter,
                StageKind::FilterMap,
                StageKind::Sort,
                StageKind::SortBy,
            ];
            for a in &fixed_small {
                for b in &fixed_small {
                    for init in chain_inits() {
                        let init: Vec<u8> = init.iter().map(|k| k % 3).collect();
                        cfgs.push(Cfg { stages: vec![*a, *b], batched: true, twin: true, init, nkeys: 3, alphabet: Alphabet::Reduced, ..base("C13") });
                    }
                }
            }
            out.push(Plan { name: "c13-chains-twin-reduced", cfgs, depth: if q { 4 } else { 5 } });
            // dynamic parameters and lag: batched only
            let mut kinds = Vec::new();
            for l in [Lim::Dyn(LimSrc::Obs), Lim::Dyn(LimSrc::Queue), Lim::DynInit(2, LimSrc::Obs), Lim::DynInit(1, LimSrc::Queue)] {
                kinds.extend(hts(l));
            }
            kinds.extend([StageKind::Filter, StageKind::Sort]);
            let mut cfgs = single_stage_cfgs("C13", &kinds, 2, 2, &[16, 1], &[Policy::Manual], &[true]);
            for c in &mut cfgs {
                c.alphabet = Alphabet::Reduced;
                c.max_limit = 3;
            }
            out.push(Plan { name: "c13-dynamic-batched-reduced", cfgs, depth: if q { 4 } else { 5 } });
        }
        "C14" => {
            let mut kinds = Vec::new();
            for l in [Lim::Static(2), Lim::Dyn(LimSrc::Obs), Lim::Dyn(LimSrc::Queue), Lim::Dyn(LimSrc::ObsReset), Lim::DynInit(2, LimSrc::Obs), Lim::DynInit(1, LimSrc::Queue)] {
                kinds.extend(hts(l));
            }
            kinds.extend([StageKind::Filter, StageKind::FilterMap, StageKind::Sort, StageKind::SortBy, StageKind::SortByKey]);
            let mut cfgs = single_stage_cfgs("C14", &kinds, 2, 2, &[16, 1], &[Policy::Manual], &fl);
            for c in &mut cfgs {
                c.alphabet = Alphabet::Reduced;
                c.drop_vec = true;
                c.drop_limit = true;
                c.max_limit = 3;
            }
            out.push(Plan { name: "c14-single-reduced", cfgs, depth: if q { 4 } else { 5 } });
            let mut cfgs = single_stage_cfgs("C14", &kinds, 2, 2, &[16], &[Policy::Manual], &fl);
            for c in &mut cfgs {
                c.drop_vec = true;
                c.drop_limit = true;
                c.max_limit = 3;
            }
            out.push(Plan { name: "c14-single-full", cfgs, depth: if q { 2 } else { 3 } });
            let menu = chain_menu();
            let mut cfgs = Vec::new();
            for a in &menu {
                for b in &menu {
                    for batched in fl {
                        cfgs.push(Cfg {
                            stages: vec![*a, *b],
                            batched,
                            init: vec![1, 0],
                            nkeys: 3,
                            alphabet: Alphabet::Reduced,
                            policy: Policy::Manual,
                            drop_vec: true,
                            drop_limit: true,
                            max_limit: 2,
                            ..base("C14")
                        });
                    }
                }
            }
            out.push(Plan { name: "c14-chains-reduced", cfgs, depth: if q { 3 } else { 4 } });
            // long runs of updates between two polls: an adapter that gives up
            // after n input items must not answer Pending without a wake-up
            let mut cfgs = Vec::new();
            for kind in [StageKind::Filter, StageKind::FilterMap, StageKind::Sort, StageKind::Head(Lim::Static(1)), StageKind::Tail(Lim::Static(1)), StageKind::Skip(Lim::Static(2)), StageKind::Head(Lim::Dyn(LimSrc::Obs))] {
                for batched in fl {
                    for init in [vec![0u8, 1], vec![1u8, 0, 1]] {
                        cfgs.push(Cfg { stages: vec![kind], batched, init, nkeys: 2, capacity: 128, alphabet: Alphabet::Reduced, bursts: vec![33, 70], policy: Policy::Manual, drop_vec: true, max_limit: 3, ..base("C14") });
                    }
                }
            }
            out.push(Plan { name: "c14-bursts", cfgs, depth: if q { 3 } else { 4 } });
        }
        "C15" => {
            let mut kinds = Vec::new();
            for n in 0..=4u8 {
                kinds.push(StageKind::Head(Lim::Static(n)));
                kinds.push(StageKind::Tail(Lim::Static(n)));
            }
            let cfgs = single_stage_cfgs("C15", &kinds, 1, 3, &[16, 1], &[Policy::Eager], &fl);
            out.push(Plan { name: "c15-static", cfgs, depth: if q { 4 } else { 5 } });
            let mut cfgs = single_stage_cfgs("C15", &kinds, 1, 4, &[16], &[Policy::Manual], &fl);
            for c in &mut cfgs {
                c.alphabet = Alphabet::Reduced;
                c.max_len = 5;
            }
            out.push(Plan { name: "c15-static-reduced-deep", cfgs, depth: if q { 5 } else { 7 } });
            // lag: a Reset reaches the adapter while its view is not full
            let mut cfgs = single_stage_cfgs("C15", &kinds, 1, 2, &[1, 2], &[Policy::Manual], &fl);
            for c in &mut cfgs {
                c.alphabet = Alphabet::Reduced;
                c.max_len = 6;
            }
            out.push(Plan { name: "c15-static-lag", cfgs, depth: if q { 4 } else { 6 } });
            // A fixed-limit Head/Tail that was polled - possibly in the middle of an input item, one of two
            // diffs handed out and the other one parked - and is then handed on as the observer of a next stage
            // (`into_parts`): the values and the remaining diffs it hands on must respect the limit as well.
            let mut cfgs = Vec::new();
            for lower in [StageKind::Head(Lim::Static(2)), StageKind::Tail(Lim::Static(2)), StageKind::Head(Lim::Static(1)), StageKind::Tail(Lim::Static(3))] {
                for init in [vec![0u8, 1, 1], vec![1u8, 0], vec![1u8, 1, 0, 1]] {
                    let mut c = Cfg { stages: vec![lower, StageKind::Filter], batched: false, init, nkeys: 2, capacity: 16, alphabet: Alphabet::Reduced, policy: Policy::Manual, max_len: 6, ..base("C15") };
                    c.static_value = true;
                    c.late_stack = true;
                    c.stack_mid_item = true;
                    cfgs.push(c);
                }
            }
            out.push(Plan { name: "c15-handed-on-mid-item", cfgs, depth: if q { 4 } else { 5 } });
        }
        "C20" => {
            let mut kinds = Vec::new();
            for l in [Lim::Static(2), Lim::Dyn(LimSrc::Obs), Lim::DynInit(1, LimSrc::Queue)] {
                kinds.extend(hts(l));
            }
            kinds.extend([StageKind::Filter, StageKind::FilterMap, StageKind::Sort, StageKind::SortByKey]);
            let mut cfgs = single_stage_cfgs("C20", &kinds, 2, 2, &[16, 1], &[Policy::Manual], &fl);
            for c in &mut cfgs {
                c.alphabet = Alphabet::Reduced;
                c.drop_vec = true;
                c.drop_limit = true;
                c.max_limit = 3;
            }
            out.push(Plan { name: "c20-adp-single-reduced", cfgs, depth: if q { 4 } else { 5 } });
            let small = [
                StageKind::Head(Lim::Static(2)),
                StageKind::Tail(Lim::Dyn(LimSrc::Obs)),
                StageKind::Skip(Lim::DynInit(1, LimSrc::Queue)),
                StageKind::Filter,
                StageKind::FilterMap,
                StageKind::Sort,
            ];
            let mut cfgs = Vec::new();
            for a in &small {
                for b in &small {
                    for batched in fl {
                        cfgs.push(Cfg { stages: vec![*a, *b], batched, init: vec![1, 0, 2], nkeys: 3, alphabet: Alphabet::Reduced, drop_vec: true, max_limit: 2, ..base("C20") });
                    }
                }
            }
            out.push(Plan { name: "c20-adp-chains-reduced", cfgs, depth: if q { 4 } else { 5 } });
            out.push(Plan {
                name: "c20-adp-tree",
                cfgs: tree_cfgs("C20", &[StageKind::Filter, StageKind::FilterMap, StageKind::Sort, StageKind::SortBy, StageKind::Head(Lim::Static(70)), StageKind::Tail(Lim::Static(70)), StageKind::Skip(Lim::Static(3))], 3),
                depth: if q { 2 } else { 3 },
            });
        }
        _ => {}
    }
    out
}

/// Single stages over vectors of 66 and 131 items (imbl switches to a tree
/// of 64-item chunks there), built up so that the first chunk starts at slot 0
/// or - after `pop_front` calls before anybody subscribes - does not.
/// The same configurations with the alphabet "Insert / Set / Remove / Truncate at every index".
fn every_index(mut cfgs: Vec<Cfg>) -> Vec<Cfg> {
    for c in &mut cfgs {
        c.alphabet = Alphabet::LargeEveryIndex;
    }
    // one capacity is enough here (no lag within one or two operations at capacity 16)
    cfgs.retain(|c| c.capacity == 16);
    cfgs
}

fn tree_cfgs(prop: &'static str, kinds: &[StageKind], nkeys: u8) -> Vec<Cfg> {
    let chains: Vec<Vec<StageKind>> = kinds.iter().map(|k| vec![*k]).collect();
    tree_chain_cfgs(prop, &chains, nkeys)
}

fn tree_chain_cfgs(prop: &'static str, chains: &[Vec<StageKind>], nkeys: u8) -> Vec<Cfg> {
    let mut cfgs = Vec::new();
    for kind in chains {
        for batched in [false, true] {
            for (len, allpass) in [(66usize, false), (131, false), (70, true), (3, false)] {
                for pre in [0u8, 1, 2] {
                    if len < 66 && pre > 0 {
                        continue;
                    }
                    for capacity in [16usize, 1] {
                        let init: Vec<u8> = (0..len).map(|i| if allpass { nkeys - 1 } else { ((i * 7 + i / 3) % nkeys as usize) as u8 }).collect();
                        cfgs.push(Cfg {
                            stages: kind.clone(),
                            batched,
                            init,
                            nkeys,
                            capacity,
                            alphabet: Alphabet::Large,
                            max_len: (len + 73) as u8,
                            max_limit: 3,
                            limit_values: vec![0, 2, 64, 65, 70, 200],
                            policy: Policy::Manual,
                            pre_pop_front: pre,
                            drop_vec: true,
                            ..base(prop)
                        });
                    }
                }
            }
        }
    }
    cfgs
}

fn run_all<E: El>(cli: &ev::Cli) -> i32 {
    let t0 = Instant::now();
    let opts = ev::opts_for(cli);
    let h = AdpH::<E>(PhantomData);
    if let Some(path) = &cli.replay {
        let rf = ev::read_replay(path);
        for p in plans(&rf.prop, &rf.tier) {
            if p.name == rf.sweep {
                let sw = Sweep { name: p.name.to_string(), h: &h, cfgs: p.cfgs, depth: p.depth };
                return ev::replay_sweep(&sw, &rf);
            }
        }
        eprintln!("MACHINERY: unknown sweep {} in replay file", rf.sweep);
        return 2;
    }
    let mut acc = Acc::default();
    let mut bm = None;
    let mut bounds = Vec::new();
    for p in plans(&cli.prop, &cli.tier) {
        bounds.push(json!({"sweep": p.name, "depth": explore::depth_bound(p.depth), "configurations": p.cfgs.len()}));
        let sw = Sweep { name: p.name.to_string(), h: &h, cfgs: p.cfgs, depth: p.depth };
        explore::explore(&sw, &opts, &mut acc, &mut bm);
        if !acc.violations.is_empty() || acc.cap_hit {
            break;
        }
    }
    let require: Vec<&'static str> = match cli.prop.as_str() {
        "C09" => vec!["adapter_emitted_diff", "limit_items_consumed", "reset_through_adapter", "several_outputs_for_one_input", "adapter_stream_ended_with_source"],
        "C10" | "C11" => vec!["adapter_emitted_diff", "reset_through_adapter", "adapter_stream_ended_with_source"],
        "C12" => vec!["initial_values_checked_at_every_stage", "adapter_emitted_diff", "direct_join_checked", "limit_items_consumed", "stacked_on_a_polled_adapter", "reset_through_adapter"],
        "C13" => vec!["twin_streams_compared", "multi_diff_source_batch", "adapter_emitted_diff", "reset_through_adapter"],
        "C14" => vec!["pending_then_woken_then_ready", "limit_items_consumed", "source_dropped_while_pending"],
        "C15" => vec!["limit_checked_after_single_diff", "view_full_again_after_making_room"],
        "C20" => vec!["tracked_sequences_balanced", "adapter_emitted_diff", "reset_through_adapter"],
        _ => vec![],
    };
    let f = Finish {
        cli,
        engine: "seqmc",
        bin: "mc-adp",
        rule: "every token sequence (source mutators with every in-range argument and every key, bracketed transactions, limit/count announcements, limit-source and vector drops, poll/drain tokens) up to the depth bound from every swept configuration (adapter or chain of adapters, limit flavour and source, plain/batched subscriber, initial vector with every key pattern, capacity, polling policy); transparent taps below every stage give one view check per input-item boundary and per Pending; non-trivial = the property's interesting event occurred (see interesting_events)",
        assumptions: vec![
            "the subscriber streams below the adapters are checked separately (C05-C08); a divergence there is counted as foreign".into(),
            "filter predicate: key != 0; sort_by / sort_by_key compare keys only (ties exist), sort uses Ord on (key, id)".into(),
            "bounds: vector length <= 4 (5 in one sweep), limits 0..=5, chains of <= 3 stages, depth as listed per sweep".into(),
            "tokio's broadcast channel, imbl, smallvec, arrayvec trusted".into(),
        ],
        require,
        bounds: json!(bounds),
        t0,
    };
    ev::finish(f, &mut acc, &opts)
}

fn main() {
    explore::install_quiet_panic_hook();
    let cli = ev::parse_cli();
    let code = if cli.prop == "C20" { run_all::<Tracked>(&cli) } else { run_all::<Plain>(&cli) };
    std::process::exit(code);
}
