// Per-stage specification and attribution of a first divergence.

fn expected_exact<E: El>(kind: StageKind, input: &[E], lim: Option<usize>) -> Option<Vec<Kid>> {
    let len = input.len();
    let k = |s: &[E]| kids(s);
    Some(match kind {
        StageKind::Head(_) => {
            let l = lim.unwrap_or(0).min(len);
            k(&input[..l])
        }
        StageKind::Tail(_) => {
            let l = lim.unwrap_or(0).min(len);
            k(&input[len - l..])
        }
        StageKind::Skip(_) => match lim {
            None => vec![],
            Some(c) => k(&input[c.min(len)..]),
        },
        StageKind::Filter => input.iter().filter(|e| pass(*e)).map(|e| e.kid()).collect(),
        StageKind::FilterMap => input.iter().filter(|e| pass(*e)).map(|e| (e.key(), e.id() + 1000)).collect(),
        StageKind::Sort => {
            let mut v = k(input);
            v.sort();
            v
        }
        StageKind::SortBy | StageKind::SortByKey => return None,
    })
}

/// Does `view` satisfy the stage's specification for `input` under `lim`?
fn view_ok<E: El>(kind: StageKind, input: &[E], lim: Option<usize>, view: &[E]) -> Result<(), String> {
    let got = kids(view);
    match expected_exact(kind, input, lim) {
        Some(exp) => {
            if got == exp {
                Ok(())
            } else {
                Err(format!("view {:?}, expected {:?} (input {:?}, limit {:?})", got, exp, kids(input), lim))
            }
        }
        None => {
            let mut a = got.clone();
            let mut b = kids(input);
            a.sort();
            b.sort();
            if a != b {
                return Err(format!("view {:?} is not a permutation of the input {:?}", got, kids(input)));
            }
            if got.windows(2).any(|w| w[0].0 > w[1].0) {
                return Err(format!("view {:?} is not ordered by key (input {:?})", got, kids(input)));
            }
            Ok(())
        }
    }
}

#[derive(Clone, Debug)]
enum ItemRec<E> {
    Init,
    Src { diffs: Vec<VectorDiff<E>>, input_before: Vec<E>, view_before: Vec<E> },
    Lim { old: Option<usize>, new: usize, len: usize },
    /// limit change of a lower stage of a direct join
    LowerLim,
}

fn item_descr<E>(it: &ItemRec<E>) -> String {
    match it {
        ItemRec::Init => "initial".into(),
        ItemRec::Lim { .. } | ItemRec::LowerLim => "limit-change".into(),
        ItemRec::Src { diffs, .. } => {
            let mut names: Vec<&str> = diffs.iter().map(diff_kind).collect();
            names.truncate(3);
            names.join("+")
        }
    }
}

const SIG_F5: &str = "tail-limit-decrease-emits-old-minus-new-popfronts";
const SIG_F7: &str = "sort-forwards-truncate-verbatim";

fn is_known_shape(sig: &str) -> bool {
    sig == SIG_F5 || sig == SIG_F7
}

/// Signature of a first divergence at stage `kind`. The two recognisers below
/// are the only place where known findings are characterised; everything else
/// gets a generic signature that no known_findings.json entry can match.
fn classify<E: El>(kind: StageKind, failure: &str, it: &ItemRec<E>, outputs: &[VectorDiff<E>]) -> String {
    // F5: dynamic Tail, limit old -> new with old > len > new > 0 emits
    // (old - new) PopFronts instead of (len - new).
    if let (StageKind::Tail(Lim::Dyn(_) | Lim::DynInit(..)), ItemRec::Lim { old: Some(old), new, len }) = (kind, it) {
        let all_pops = !outputs.is_empty() && outputs.iter().all(|d| matches!(d, VectorDiff::PopFront));
        if old > len && len > new && *new > 0 && all_pops {
            let n = outputs.len();
            let surplus_inapplicable = failure == "inapplicable" && n <= old - new && n > len - new;
            let full = failure == "view" && n == old - new;
            if surplus_inapplicable || full {
                return SIG_F5.into();
            }
        }
    }
    // F7: a sort stage forwards Truncate{n} verbatim although the items kept
    // by the source are not the first n of the sorted view.
    if let (StageKind::Sort | StageKind::SortBy | StageKind::SortByKey, ItemRec::Src { diffs, input_before, view_before }) = (kind, it) {
        if let Some(j) = diffs.iter().position(|d| matches!(d, VectorDiff::Truncate { .. })) {
            let mut input_j = input_before.clone();
            let ok_in = diffs[..j].iter().all(|d| apply_checked(d, &mut input_j).is_ok());
            if ok_in {
                let mut view_p = view_before.clone();
                for p in 0..outputs.len() {
                    if outputs[p] == diffs[j] && view_ok(kind, &input_j, None, &view_p).is_ok() {
                        return SIG_F7.into();
                    }
                    if apply_checked(&outputs[p], &mut view_p).is_err() {
                        break;
                    }
                }
            }
        }
    }
    // F7 where the Truncate the sort stage received is not visible to a tap
    // (direct join: the stage below produced it, from a limit change, a source
    // Truncate, or - with other diff shapes - a PopBack) or where the stage
    // below takes several input items before the sort stage emits (the
    // Truncate is then attributed to a later item): a sort stage has no way
    // to emit a Truncate other than forwarding one, so a wrong view right
    // after it emitted one is that defect.
    if let StageKind::Sort | StageKind::SortBy | StageKind::SortByKey = kind {
        if failure == "view" && outputs.iter().any(|d| matches!(d, VectorDiff::Truncate { .. })) {
            return SIG_F7.into();
        }
    }
    format!("{}/{}/{}", failure, kind.name(), item_descr(it))
}
