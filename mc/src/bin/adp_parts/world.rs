// Execution on the real objects.

struct StageR {
    kind: StageKind,
    /// Limit/count the adapter knows (last value that passed its limit tap).
    lim: Option<usize>,
    ctl: LimCtl,
    seg: usize,
    /// Limit the adapter is expected to know at a quiescent point.
    expect_lim: Option<usize>,
    lim_src: Option<LimSrc>,
    announced: bool,
}

/// Stages joined without a tap in between (only with `Cfg::direct`).
struct SegR<E: El> {
    stages: Vec<usize>,
    last_item: ItemRec<E>,
    outputs: Vec<VectorDiff<E>>,
}

#[derive(Clone, Copy, PartialEq, Eq, Debug)]
enum Polled {
    Pending,
    Item,
    End,
}

struct Ctx<'a> {
    step: usize,
    prop: &'static str,
    model: &'a [Kid],
    alive: bool,
}

/// The top of the chain: a boxed stream, or (for late stacking) a dynamic
/// adapter kept as a value so that a further stage can be built on it later.
enum TopS<E: El, I: Item<E>> {
    Boxed(BoxS<I>),
    Ad(DynAd<E, I>),
    Taken,
}

impl<E: El, I: Item<E>> TopS<E, I> {
    fn poll_next(&mut self, cx: &mut Context<'_>) -> Poll<Option<I>> {
        match self {
            TopS::Boxed(s) => s.as_mut().poll_next(cx),
            TopS::Ad(DynAd::Head(h)) => Pin::new(h).poll_next(cx),
            TopS::Ad(DynAd::Tail(h)) => Pin::new(h).poll_next(cx),
            TopS::Ad(DynAd::Skip(h)) => Pin::new(h).poll_next(cx),
            TopS::Ad(DynAd::Never(_)) | TopS::Taken => unreachable!(),
        }
    }
}

struct Chain<E: El, I: Item<E>> {
    top: TopS<E, I>,
    /// stage still to be stacked on top (late stacking)
    pending_stage: Option<StageKind>,
    log: Log<E>,
    stages: Vec<StageR>,
    segs: Vec<SegR<E>>,
    /// reps[g] = input of segment g; reps[nsegs] = the view rebuilt from the
    /// top stream.
    reps: Vec<Vec<E>>,
    src_ended: bool,
    ended: bool,
    last_pending: Option<Arc<Flag>>,
    flat_out: Vec<VectorDiff<E>>,
    direct: bool,
    /// per tap: did its stream answer Pending the last time it was polled?
    tap_pending: Vec<bool>,
    /// per segment: the first view mismatch seen at an input-item boundary
    /// since the view was last right. It becomes a violation only if the view
    /// is still wrong when the stream is quiescent (Pending / ended): the
    /// properties speak about those points, and an adapter is free to fetch
    /// several inputs before it emits.
    provisional: RefCell<Vec<Option<Violation>>>,
    /// Diffs emitted by each segment so far. A provisional divergence is
    /// forgotten at a later boundary only if the view is right there *and*
    /// the segment has emitted something since (the view moved to the right
    /// place); if only the expectation moved - a prefetching adapter took
    /// another input item while its diffs for the earlier ones are still
    /// queued - the divergence stays the first one until a quiescent point
    /// confirms the view.
    emitted: Vec<usize>,
    prov_at: RefCell<Vec<usize>>,
    /// The first divergence of a segment that has the shape of a known
    /// finding (spec.rs recognisers). Such a defect leaves the emitted view
    /// out of step with what the adapter assumes, so whatever goes wrong in
    /// that segment afterwards is its consequence - until a quiescent point
    /// finds the view right again.
    taint: RefCell<Vec<Option<Violation>>>,
}

fn narrow<E: El>(kind: StageKind, input: &[E], lim: Option<usize>) -> Vec<E> {
    let len = input.len();
    match kind {
        StageKind::Head(_) => input[..lim.unwrap_or(0).min(len)].to_vec(),
        StageKind::Tail(_) => input[len - lim.unwrap_or(0).min(len)..].to_vec(),
        StageKind::Skip(_) => match lim {
            None => vec![],
            Some(c) => input[c.min(len)..].to_vec(),
        },
        _ => unreachable!("only head/tail/skip can be the lower part of a direct join"),
    }
}

impl<E: El, I: Item<E>> Chain<E, I> {
    fn build(cfg: &Cfg, ob: &ObservableVector<E>) -> Self {
        let log: Log<E> = Rc::new(RefCell::new(Vec::new()));
        let (values, stream) = I::from_sub(ob.subscribe());
        let n_all = cfg.stages.len();
        let n = if cfg.late_stack { 1 } else { n_all };
        let mut reps: Vec<Vec<E>> = vec![values.iter().cloned().collect()];
        let mut segs: Vec<SegR<E>> = Vec::new();
        let mut stages: Vec<StageR> = Vec::new();
        let mut cur_seg: Vec<usize> = Vec::new();
        let tap = |g: usize, s: BoxS<I>| -> BoxS<I> { Box::pin(Tap { inner: s, stage: g, log: log.clone(), ended: false }) };
        let mut cur: Built<E, I> = Built::Pair(values, tap(0, stream));
        for (k, kind) in cfg.stages.iter().copied().enumerate().take(n) {
            let (built, ctl) = match cur {
                Built::Pair(v, s) => build_on_pair(v, s, kind, k, cfg.obs_init, &log, cfg.via_adapter, cfg.static_value),
                Built::Dyn(ad, _) => {
                    if cfg.direct {
                        build_on_adapter(ad, kind, k, cfg.obs_init, &log)
                    } else {
                        let (v, s) = ad.into_pair();
                        reps.push(v.iter().cloned().collect());
                        segs.push(SegR { stages: std::mem::take(&mut cur_seg), last_item: ItemRec::Init, outputs: vec![] });
                        let g = segs.len();
                        build_on_pair(v, tap(g, s), kind, k, cfg.obs_init, &log, cfg.via_adapter, cfg.static_value)
                    }
                }
            };
            let (lim, src) = match kind.lim() {
                Some(Lim::Static(x)) => (Some(x as usize), None),
                Some(Lim::DynInit(x, s)) => (Some(x as usize), Some(s)),
                Some(Lim::Dyn(s)) => (None, Some(s)),
                None => (None, None),
            };
            let expect = match src {
                Some(LimSrc::ObsReset) => Some(cfg.obs_init as usize),
                _ => lim,
            };
            cur_seg.push(k);
            stages.push(StageR { kind, lim, ctl, seg: segs.len(), expect_lim: expect, lim_src: src, announced: false });
            let last = k + 1 == n;
            cur = match built {
                Built::Pair(v, s) if !last => {
                    reps.push(v.iter().cloned().collect());
                    segs.push(SegR { stages: std::mem::take(&mut cur_seg), last_item: ItemRec::Init, outputs: vec![] });
                    let g = segs.len();
                    Built::Pair(v, tap(g, s))
                }
                other => other,
            };
        }
        let (v, top) = match cur {
            Built::Pair(v, s) => (v, TopS::Boxed(s)),
            Built::Dyn(ad, init) if cfg.late_stack => (init.unwrap_or_default(), TopS::Ad(ad)),
            Built::Dyn(ad, init) => (init.unwrap_or_default(), TopS::Boxed(ad.into_stream())),
        };
        let pending_stage = if cfg.late_stack { Some(cfg.stages[1]) } else { None };
        let _ = n_all;
        reps.push(v.iter().cloned().collect());
        segs.push(SegR { stages: cur_seg, last_item: ItemRec::Init, outputs: vec![] });
        // fix up segment indices of stages
        for (g, s) in segs.iter().enumerate() {
            for &k in &s.stages {
                stages[k].seg = g;
            }
        }
        Chain { top, pending_stage, log, stages, segs, reps, src_ended: false, ended: false, last_pending: None, flat_out: Vec::new(), direct: cfg.direct, tap_pending: vec![false; 8], provisional: RefCell::new(vec![None; 8]), emitted: vec![0; 8], prov_at: RefCell::new(vec![0; 8]), taint: RefCell::new(vec![None; 8]) }
    }

    /// Late stacking: build the pending stage on the dynamic adapter that has
    /// been the top of the chain so far (it has been polled, has seen limits
    /// and source updates, and is quiescent). What it hands over as initial
    /// values must be its current view.
    fn stack(&mut self, cfg: &Cfg, cx: &Ctx<'_>, st: &mut Stats) -> Result<(), Violation> {
        let Some(kind) = self.pending_stage.take() else { return Ok(()) };
        let TopS::Ad(ad) = std::mem::replace(&mut self.top, TopS::Taken) else { unreachable!("late stacking needs a dynamic adapter on top") };
        let k = self.stages.len();
        let log = self.log.clone();
        let view_now = kids(self.reps.last().unwrap());
        let (built, ctl) = if cfg.direct {
            build_on_adapter(ad, kind, k, cfg.obs_init, &log)
        } else {
            let (v, s) = ad.into_pair();
            let handed = kids_im(&v);
            if cfg.stack_mid_item {
                // The old consumer is gone and may have been in the middle of
                // an item: what counts is that the values handed over are the
                // stage's view of the input it has taken so far - and that
                // nothing already contained in them is emitted again (the
                // quiescent checks that follow see that).
                *self.reps.last_mut().unwrap() = v.iter().cloned().collect();
                let g = self.segs.len() - 1;
                self.provisional.borrow_mut()[g] = None;
                if let Err(e) = self.seg_check(g, cx, st, true) {
                    if is_known_shape(&e.sig) {
                        return Err(e);
                    }
                    return Err(viol("C12", cx.step, format!("into-parts-not-current-view/{}", self.stages[k - 1].kind.name()), format!("initial values handed to the next stage: {}", e.detail)));
                }
                st.mark("stacked_on_an_adapter_in_the_middle_of_an_item");
            } else if handed != view_now {
                return Err(viol(
                    "C12",
                    cx.step,
                    format!("into-parts-not-current-view/{}", self.stages[k - 1].kind.name()),
                    format!("the adapter hands {:?} to the next stage as initial values, its current view is {:?}", handed, view_now),
                ));
            }
            st.mark("stacked_on_a_polled_adapter");
            let g = self.segs.len();
            let tapped: BoxS<I> = Box::pin(Tap { inner: s, stage: g, log: log.clone(), ended: false });
            build_on_pair(v, tapped, kind, k, cfg.obs_init, &log, false, false)
        };
        let (lim, src) = match kind.lim() {
            Some(Lim::Static(x)) => (Some(x as usize), None),
            Some(Lim::DynInit(x, s)) => (Some(x as usize), Some(s)),
            Some(Lim::Dyn(s)) => (None, Some(s)),
            None => (None, None),
        };
        let expect = match src {
            Some(LimSrc::ObsReset) => Some(cfg.obs_init as usize),
            _ => lim,
        };
        let (v, top) = match built {
            Built::Pair(v, s) => (v, TopS::Boxed(s)),
            Built::Dyn(ad, init) => (init.unwrap_or_default(), TopS::Boxed(ad.into_stream())),
        };
        self.top = top;
        if cfg.direct {
            // joined with the segment below: its view replica is replaced by
            // the new top view
            let g = self.segs.len() - 1;
            self.segs[g].stages.push(k);
            self.segs[g].last_item = ItemRec::Init;
            self.segs[g].outputs.clear();
            *self.reps.last_mut().unwrap() = v.iter().cloned().collect();
            self.stages.push(StageR { kind, lim, ctl, seg: g, expect_lim: expect, lim_src: src, announced: false });
            st.mark("stacked_on_a_polled_adapter");
        } else {
            self.reps.push(v.iter().cloned().collect());
            self.segs.push(SegR { stages: vec![k], last_item: ItemRec::Init, outputs: vec![] });
            let g = self.segs.len() - 1;
            self.stages.push(StageR { kind, lim, ctl, seg: g, expect_lim: expect, lim_src: src, announced: false });
        }
        self.flat_out.clear();
        // from the initial values on
        for g in 0..self.segs.len() {
            self.seg_check(g, cx, st, true)?;
        }
        Ok(())
    }

    fn view_prop(&self, g: usize, cx: &Ctx<'_>) -> &'static str {
        match cx.prop {
            "C12" | "C13" => cx.prop,
            _ => self.stages[*self.segs[g].stages.last().unwrap()].kind.prop(),
        }
    }

    /// Input of the last stage of segment g (narrowed through the directly
    /// joined lower stages) and that stage's index.
    fn seg_input(&self, g: usize) -> (Vec<E>, usize) {
        let seg = &self.segs[g];
        let mut cur = self.reps[g].clone();
        for &k in &seg.stages[..seg.stages.len() - 1] {
            cur = narrow(self.stages[k].kind, &cur, self.stages[k].lim);
        }
        (cur, *seg.stages.last().unwrap())
    }

    /// The view of segment g must be the correct view of its input.
    fn seg_check(&self, g: usize, cx: &Ctx<'_>, st: &mut Stats, strict: bool) -> Result<(), Violation> {
        let (input, k) = self.seg_input(g);
        let kind = self.stages[k].kind;
        st.hit("boundary_checks");
        match view_ok(kind, &input, self.stages[k].lim, &self.reps[g + 1]) {
            Ok(()) => {
                if strict || self.emitted[g] > self.prov_at.borrow()[g] {
                    self.provisional.borrow_mut()[g] = None;
                }
                if strict {
                    self.taint.borrow_mut()[g] = None;
                }
                Ok(())
            }
            Err(msg) => {
                let seg = &self.segs[g];
                let sig = classify(kind, "view", &seg.last_item, &seg.outputs);
                let prop = if matches!(seg.last_item, ItemRec::Init) && g > 0 && cx.prop == "C12" { "C12" } else { self.view_prop(g, cx) };
                let v = viol(
                    prop,
                    cx.step,
                    sig,
                    format!(
                        "stage(s) {:?} [{}]: {msg}; last input item {:?}; diffs emitted for it {:?}",
                        seg.stages,
                        seg.stages.iter().map(|k| self.stages[*k].kind.name()).collect::<Vec<_>>().join(">"),
                        seg.last_item,
                        seg.outputs
                    ),
                );
                let mut prov = self.provisional.borrow_mut();
                if is_known_shape(&v.sig) && self.taint.borrow()[g].is_none() {
                    self.taint.borrow_mut()[g] = Some(v.clone());
                }
                if strict {
                    // report the first divergence since the view was last
                    // confirmed right
                    let first = if is_known_shape(&v.sig) {
                        prov[g] = None;
                        v
                    } else {
                        prov[g].take().unwrap_or(v)
                    };
                    match self.taint.borrow_mut()[g].take() {
                        Some(t) if !is_known_shape(&first.sig) => Err(t),
                        _ => Err(first),
                    }
                } else {
                    if prov[g].is_none() {
                        prov[g] = Some(v);
                        self.prov_at.borrow_mut()[g] = self.emitted[g];
                        st.hit("provisional_boundary_mismatches");
                    }
                    Ok(())
                }
            }
        }
    }

    /// The earliest unconfirmed divergence of segment g's view, if any.
    fn first_divergence(&self, g: usize) -> Option<Violation> {
        let p = self.provisional.borrow_mut()[g].take();
        match self.taint.borrow_mut()[g].take() {
            Some(t) if !p.as_ref().is_some_and(|p| is_known_shape(&p.sig)) => Some(t),
            _ => p,
        }
    }

    /// `diffs` arrive at replica index `g` (output of segment g-1, or the
    /// subscriber's item if g == 0).
    fn on_item(&mut self, g: usize, diffs: Vec<VectorDiff<E>>, cx: &Ctx<'_>, st: &mut Stats) -> Result<(), Violation> {
        let nsegs = self.segs.len();
        let input_before = self.reps[g].clone();
        if g == 0 {
            if diffs.iter().any(|d| matches!(d, VectorDiff::Reset { .. })) {
                st.mark("reset_through_adapter");
            }
            if diffs.len() > 1 {
                st.hit("multi_diff_source_batch");
            }
        }
        if I::BATCHED && diffs.is_empty() {
            let prop = if g == 0 { "C07" } else { "C13" };
            return Err(viol(prop, cx.step, "empty-batch", format!("an empty batch was emitted below replica {g}")));
        }
        for d in &diffs {
            if g > 0 {
                self.segs[g - 1].outputs.push(d.clone());
                self.emitted[g - 1] += 1;
            }
            if let Err(e) = apply_checked(d, &mut self.reps[g]) {
                if g == 0 {
                    return Err(viol("C06", cx.step, format!("inapplicable/subscriber/{}", diff_kind(d)), format!("subscriber stream: {e}")));
                }
                // an unhealed earlier divergence of this view is the first
                // divergence; what follows it is a consequence
                // (unless this very failure has the shape of a known finding:
                // a provisional mismatch recorded while the diffs for the
                // current item were still incomplete must not hide it)
                let sig = {
                    let seg = &self.segs[g - 1];
                    let k = *seg.stages.last().unwrap();
                    classify(self.stages[k].kind, "inapplicable", &seg.last_item, &seg.outputs)
                };
                if !is_known_shape(&sig) {
                    if let Some(pv) = self.first_divergence(g - 1) {
                        return Err(pv);
                    }
                }
                let seg = &self.segs[g - 1];
                return Err(viol(
                    self.view_prop(g - 1, cx),
                    cx.step,
                    sig,
                    format!("stage(s) {:?}: emitted {:?} which is inapplicable to its view: {e}; last input item {:?}", seg.stages, d, seg.last_item),
                ));
            }
            if g > 0 {
                // C15: a fixed-limit Head/Tail view never exceeds the limit,
                // not even between two diffs.
                let seg = &self.segs[g - 1];
                if seg.stages.len() == 1 {
                    if let StageKind::Head(Lim::Static(l)) | StageKind::Tail(Lim::Static(l)) = self.stages[seg.stages[0]].kind {
                        st.hit("limit_checked_after_single_diff");
                        if self.reps[g].len() == l as usize && seg.outputs.len() > 1 {
                            st.mark("view_full_again_after_making_room");
                        }
                        if self.reps[g].len() > l as usize {
                            if let Some(pv) = self.first_divergence(g - 1) {
                                return Err(pv);
                            }
                            return Err(viol(
                                "C15",
                                cx.step,
                                format!("over-limit/{}/{}", self.stages[seg.stages[0]].kind.name(), diff_kind(d)),
                                format!("after {:?} the view has {} items, limit {l}; diffs emitted for the current input item: {:?}", d, self.reps[g].len(), seg.outputs),
                            ));
                        }
                    }
                }
                if self.segs[g - 1].outputs.len() > 1 {
                    st.hit("several_outputs_for_one_input");
                }
                st.mark("adapter_emitted_diff");
            }
        }
        // C13: after each emitted batch the view is the adapter's view of its
        // input as it is now (one source batch or one limit change per batch).
        if I::BATCHED && g > 0 && cx.prop == "C13" {
            self.seg_check(g - 1, cx, st, true)?;
        }
        if g < nsegs {
            let view_before = self.reps[g + 1].clone();
            self.segs[g].last_item = ItemRec::Src { diffs, input_before, view_before };
            self.segs[g].outputs.clear();
        } else {
            self.flat_out.extend(diffs);
        }
        Ok(())
    }

    fn process(&mut self, ev: Evt<E>, cx: &Ctx<'_>, st: &mut Stats) -> Result<(), Violation> {
        match ev {
            Evt::SrcPolled(g) => self.seg_check(g, cx, st, false),
            Evt::LimPolled(k) => {
                // A boundary of the segment only if k is its lowest stage: an
                // upper stage of a direct join polls its limit while the stage
                // below may still hold buffered diffs.
                let g = self.stages[k].seg;
                if self.segs[g].stages[0] == k {
                    self.seg_check(g, cx, st, false)
                } else {
                    Ok(())
                }
            }
            Evt::SrcItem(g, diffs) => {
                self.tap_pending[g] = false;
                self.on_item(g, diffs, cx, st)
            }
            Evt::LimItem(k, v) => {
                let g = self.stages[k].seg;
                let is_last = *self.segs[g].stages.last().unwrap() == k;
                let (input, _) = self.seg_input(g);
                let old = self.stages[k].lim;
                self.stages[k].lim = Some(v);
                self.segs[g].last_item = if is_last { ItemRec::Lim { old, new: v, len: input.len() } } else { ItemRec::LowerLim };
                self.segs[g].outputs.clear();
                st.hit("limit_items_consumed");
                Ok(())
            }
            Evt::SrcEnd(g) => {
                if g == 0 {
                    self.src_ended = true;
                }
                Ok(())
            }
            Evt::SrcPending(g) => {
                self.tap_pending[g] = true;
                Ok(())
            }
            Evt::LimEnd(_) | Evt::LimPending(_) => Ok(()),
            Evt::LimPolledAfterEnd(k) => Err(viol(
                self.stages[k].kind.prop(),
                cx.step,
                format!("limit-stream-polled-after-end/{}", self.stages[k].kind.name()),
                "the adapter polled its limit/count stream again after that stream had returned Ready(None); a stream that is not fused may panic or block then".to_string(),
            )),
            Evt::SrcPolledAfterEnd(g) => {
                let k = *self.segs[g].stages.first().unwrap();
                Err(viol(
                    self.stages[k].kind.prop(),
                    cx.step,
                    format!("input-stream-polled-after-end/{}", self.stages[k].kind.name()),
                    "the adapter polled its input stream again after that stream had returned Ready(None)".to_string(),
                ))
            }
        }
    }

    fn poll(&mut self, cx: &Ctx<'_>, st: &mut Stats) -> Result<Polled, Violation> {
        if self.ended {
            return Ok(Polled::End);
        }
        self.log.borrow_mut().clear();
        let (flag, waker) = flag_waker();
        let mut tcx = Context::from_waker(&waker);
        let r = match std::panic::catch_unwind(std::panic::AssertUnwindSafe(|| self.top.poll_next(&mut tcx))) {
            Ok(r) => r,
            Err(payload) => {
                // A stage panicked (typically while applying an inapplicable
                // diff from the stage below to its own buffer). What the taps
                // logged before the panic tells which stage went wrong first.
                let events = std::mem::take(&mut *self.log.borrow_mut());
                for ev in events {
                    self.process(ev, cx, st)?;
                }
                for g in 0..self.segs.len() {
                    if let Some(pv) = self.first_divergence(g) {
                        return Err(pv);
                    }
                }
                std::panic::resume_unwind(payload);
            }
        };
        st.transitions += 1;
        let events = std::mem::take(&mut *self.log.borrow_mut());
        let src_end_before = self.src_ended;
        for ev in events {
            self.process(ev, cx, st)?;
        }
        let nsegs = self.segs.len();
        let top_kind = self.stages.last().unwrap().kind;
        for st_k in &self.stages {
            if st_k.ctl.polled_after_end() {
                return Err(viol(
                    st_k.kind.prop(),
                    cx.step,
                    format!("limit-stream-polled-after-end/{}", st_k.kind.name()),
                    "the adapter polled its limit/count stream again after that stream had returned Ready(None); a stream that is not fused may panic or block then".to_string(),
                ));
            }
        }
        if let Poll::Ready(_) = &r {
            if let Some(f) = self.last_pending.take() {
                if !f.woken() {
                    return Err(viol(
                        "C14",
                        cx.step,
                        format!("ready-without-wake/{}", self.stages.iter().map(|s| s.kind.name()).collect::<Vec<_>>().join(">")),
                        format!("the stream is Ready ({}) but the waker of its previous Pending poll was never woken", match &r {
                            Poll::Ready(Some(i)) => format!("{:?}", i.to_vec()),
                            _ => "end of stream".into(),
                        }),
                    ));
                }
                st.mark("pending_then_woken_then_ready");
            }
        }
        // Once its source has ended an adapter may still hand out what it has
        // queued (one poll can take several input items), but it can never be
        // Pending again: nothing would ever wake it.
        let _ = src_end_before;
        if self.src_ended && matches!(r, Poll::Pending) {
            return Err(viol(top_kind.prop(), cx.step, format!("source-ended-adapter-did-not/{}", top_kind.name()), "the source stream has ended but the adapter answers Pending instead of delivering what it holds and ending".to_string()));
        }
        match r {
            Poll::Ready(Some(item)) => {
                self.on_item(nsegs, item.to_vec(), cx, st)?;
                Ok(Polled::Item)
            }
            Poll::Ready(None) => {
                if !self.src_ended {
                    return Err(viol(top_kind.prop(), cx.step, format!("ended-without-source-end/{}", top_kind.name()), "the adapter's stream ended although its source stream did not".to_string()));
                }
                if cx.alive {
                    return Err(viol("C08", cx.step, "ended-while-alive/adapter-source", "the subscriber stream ended while the vector is alive".to_string()));
                }
                self.ended = true;
                self.quiescent_checks(cx, st)?;
                st.mark("adapter_stream_ended_with_source");
                Ok(Polled::End)
            }
            Poll::Pending => {
                if !cx.alive {
                    return Err(viol("C08", cx.step, "pending-after-drop/adapter", "Pending although the vector was dropped".to_string()));
                }
                // A stage may answer Pending only because its input did.
                for g in (0..self.segs.len()).rev() {
                    if !self.tap_pending[g] {
                        let k = *self.segs[g].stages.last().unwrap();
                        return Err(viol(
                            // the waker of this poll is not registered below: C14's business too
                            if cx.prop == "C14" { "C14" } else { self.view_prop(g, cx) },
                            cx.step,
                            format!("pending-although-input-not-pending/{}", self.stages[k].kind.name()),
                            format!("stage(s) {:?} answered Pending although the stream below last answered with an item: undelivered input may remain", self.segs[g].stages),
                        ));
                    }
                }
                self.quiescent_checks(cx, st)?;
                self.last_pending = Some(flag);
                Ok(Polled::Pending)
            }
        }
    }

    fn quiescent_checks(&self, cx: &Ctx<'_>, st: &mut Stats) -> Result<(), Violation> {
        let got = kids(&self.reps[0]);
        if got != cx.model {
            return Err(viol("C06", cx.step, "subscriber-replica-diverged", format!("below the adapters: replica {:?}, contents {:?}", got, cx.model)));
        }
        for s in &self.stages {
            if s.lim_src.is_some() && s.lim != s.expect_lim {
                return Err(viol(
                    s.kind.prop(),
                    cx.step,
                    format!("limit-not-consumed/{}", s.kind.name()),
                    format!("quiescent, but the adapter works with limit {:?} while the latest announced is {:?}", s.lim, s.expect_lim),
                ));
            }
        }
        for g in 0..self.segs.len() {
            self.seg_check(g, cx, st, true)?;
        }
        st.hit("quiescent_checks");
        if self.direct {
            st.mark("direct_join_checked");
        }
        Ok(())
    }

    fn drain(&mut self, cx: &Ctx<'_>, st: &mut Stats) -> Result<Polled, Violation> {
        for _ in 0..5000 {
            match self.poll(cx, st)? {
                Polled::Item => continue,
                other => return Ok(other),
            }
        }
        Err(viol(cx.prop, cx.step, "never-quiescent", "the stream still yields items after 5000 polls".to_string()))
    }
}

struct World<E: El, I: Item<E>> {
    cfg: Cfg,
    ob: Option<ObservableVector<E>>,
    vec: Vec<Kid>,
    next_id: u16,
    alive: bool,
    main: Chain<E, I>,
    /// Same chain on the plain subscriber flavour (C13 twin comparison).
    twin: Option<Chain<E, VectorDiff<E>>>,
    step: usize,
}

fn mk_elems<E: El>(kids: &[Kid]) -> Vector<E> {
    kids.iter().map(|(k, i)| E::mk(*k, *i)).collect()
}

impl<E: El, I: Item<E>> World<E, I> {
    fn new(cfg: &Cfg) -> Self {
        let mut ob = ObservableVector::<E>::with_capacity(cfg.capacity);
        let mut next_id = 0u16;
        let mut vec: Vec<Kid> = cfg.init.iter().map(|k| fresh(&mut next_id, *k)).collect();
        for _ in 0..cfg.init_run {
            vec.push(fresh(&mut next_id, 0));
        }
        if !vec.is_empty() {
            ob.append(mk_elems(&vec));
        }
        for _ in 0..cfg.pre_pop_front {
            ob.pop_front();
            if !vec.is_empty() {
                vec.remove(0);
            }
        }
        let main = Chain::<E, I>::build(cfg, &ob);
        let twin = if cfg.twin { Some(Chain::<E, VectorDiff<E>>::build(cfg, &ob)) } else { None };
        World { cfg: cfg.clone(), ob: Some(ob), vec, next_id, alive: true, main, twin, step: 0 }
    }

    fn drain_all(&mut self, st: &mut Stats) -> Result<Polled, Violation> {
        let cx = Ctx { step: self.step, prop: self.cfg.prop, model: &self.vec, alive: self.alive };
        let r = match self.main.drain(&cx, st) {
            Ok(r) => r,
            Err(e) => {
                // Not this property's oracle (e.g. the subscriber stream ended
                // early, C08): what C13 says about the two flavours still
                // applies to what was delivered up to here.
                if e.prop != cx.prop && cx.prop == "C13" {
                    if let Some(t) = self.twin.as_mut() {
                        if t.drain(&cx, st).is_ok() && t.flat_out != self.main.flat_out {
                            return Err(viol(
                                "C13",
                                self.step,
                                "batched-differs-from-unbatched",
                                format!("batched stream delivered {:?} (then: {}), the unbatched stream {:?}", self.main.flat_out, e.sig, t.flat_out),
                            ));
                        }
                    }
                }
                return Err(e);
            }
        };
        if let Some(t) = self.twin.as_mut() {
            let r2 = t.drain(&cx, st)?;
            if r2 != r {
                return Err(viol("C13", self.step, "twin-state-differs", format!("batched chain is {:?}, plain chain is {:?}", r, r2)));
            }
            if t.flat_out != self.main.flat_out {
                return Err(viol(
                    "C13",
                    self.step,
                    "batched-differs-from-unbatched",
                    format!("batched stream delivered {:?}, the unbatched stream {:?}", self.main.flat_out, t.flat_out),
                ));
            }
            if !t.flat_out.is_empty() {
                st.mark("twin_streams_compared");
            }
        }
        Ok(r)
    }

    fn after_token(&mut self, st: &mut Stats) -> Result<(), Violation> {
        if self.cfg.policy == Policy::Eager {
            self.drain_all(st)?;
        }
        if E::TRACKED && el::reg_has_errors() {
            return Err(viol("C20", self.step, "tracked-misuse", el::reg_errors().join("; ")));
        }
        Ok(())
    }

    fn apply_real(t: &mut impl VecLike<E>, op: Op, nkeys: u8, ids_from: u16) {
        let mut n = ids_from;
        let mut mk = |k: u8| {
            let e = E::mk(k, n);
            n += 1;
            e
        };
        match op {
            Op::Append(cnt, keys) => {
                let mut code = keys;
                let mut v = Vector::new();
                for _ in 0..cnt {
                    v.push_back(mk(code % nkeys));
                    code /= nkeys;
                }
                t.v_append(v)
            }
            Op::Clear => t.v_clear(),
            Op::PushFront(k) => t.v_push_front(mk(k)),
            Op::PushBack(k) => t.v_push_back(mk(k)),
            Op::PopFront => t.v_pop_front(),
            Op::PopBack => t.v_pop_back(),
            Op::Insert(i, k) => t.v_insert(i as usize, mk(k)),
            Op::Set(i, k) => t.v_set(i as usize, mk(k)),
            Op::Remove(i) => t.v_remove(i as usize),
            Op::Truncate(n) => t.v_truncate(n as usize),
            Op::AppendRun(cnt, k) => {
                let mut v = Vector::new();
                for _ in 0..cnt {
                    v.push_back(mk(k));
                }
                t.v_append(v)
            }
            Op::BurstSet0(n) => {
                for _ in 0..n {
                    t.v_set(0, mk(0));
                }
            }
        }
    }

    fn exec(&mut self, toks: &[Tok], st: &mut Stats) -> Result<(), Violation> {
        self.step = 0;
        // C12 / C09: from the initial values on.
        {
            let cx = Ctx { step: 0, prop: self.cfg.prop, model: &self.vec, alive: true };
            // "from the initial values on" is C12's statement (and C15's for the
            // length); for the others the first quiescent point decides.
            let strict = self.cfg.prop == "C12";
            for g in 0..self.main.segs.len() {
                self.main.seg_check(g, &cx, st, strict)?;
            }
            if let Some(t) = &self.twin {
                for g in 0..t.segs.len() {
                    t.seg_check(g, &cx, st, strict)?;
                }
            }
            if self.main.segs.len() > 1 {
                st.mark("initial_values_checked_at_every_stage");
            }
            // C15: the initial values already respect a fixed limit.
            for (g, seg) in self.main.segs.iter().enumerate() {
                if seg.stages.len() == 1 {
                    if let StageKind::Head(Lim::Static(l)) | StageKind::Tail(Lim::Static(l)) = self.main.stages[seg.stages[0]].kind {
                        if self.main.reps[g + 1].len() > l as usize {
                            return Err(viol(
                                "C15",
                                0,
                                format!("over-limit/{}/initial", self.main.stages[seg.stages[0]].kind.name()),
                                format!("the initial values have {} items, limit {l}", self.main.reps[g + 1].len()),
                            ));
                        }
                    }
                }
            }
        }
        self.after_token(st)?;
        let mut i = 0;
        while i < toks.len() {
            self.step = i;
            st.transitions += 1;
            match toks[i] {
                Tok::Op(op) => {
                    let id0 = self.next_id;
                    Self::apply_real(self.ob.as_mut().unwrap(), op, self.cfg.nkeys, id0);
                    op_effect(op, self.cfg.nkeys, &mut self.vec, &mut self.next_id);
                }
                Tok::TxnBegin => {
                    i = self.run_txn(toks, i, st)?;
                    continue;
                }
                Tok::SetLimit(k, n) => self.set_limit(k as usize, n as usize),
                Tok::DropLimit(k) => self.drop_limit(k as usize),
                Tok::Poll => {
                    let cx = Ctx { step: self.step, prop: self.cfg.prop, model: &self.vec, alive: self.alive };
                    self.main.poll(&cx, st)?;
                }
                Tok::Drain => {
                    self.drain_all(st)?;
                }
                Tok::Stack => {
                    if !self.cfg.stack_mid_item {
                        self.drain_all(st)?;
                    }
                    let cx = Ctx { step: self.step, prop: self.cfg.prop, model: &self.vec, alive: self.alive };
                    self.main.stack(&self.cfg, &cx, st)?;
                }
                Tok::DropVec => {
                    self.ob = None;
                    self.alive = false;
                    if self.main.last_pending.is_some() {
                        st.hit("source_dropped_while_pending");
                    }
                }
                Tok::TxnCommit | Tok::TxnDrop => unreachable!(),
            }
            self.after_token(st)?;
            i += 1;
        }
        self.step = toks.len();
        // epilogue
        let r = self.drain_all(st)?;
        if !self.alive && r != Polled::End {
            return Err(viol("C08", self.step, "not-ended-after-drop/adapter", format!("{:?} after the vector was dropped", r)));
        }
        if self.alive {
            let got = kids_im(self.ob.as_ref().unwrap());
            if got != self.vec {
                return Err(viol("C17", self.step, "contents/final", format!("contents {:?} != model {:?}", got, self.vec)));
            }
        }
        Ok(())
    }

    fn set_limit(&mut self, k: usize, n: usize) {
        for c in std::iter::once(&mut self.main.stages).chain(self.twin.as_mut().map(|t| &mut t.stages)) {
            c[k].ctl.set(n);
            c[k].expect_lim = Some(n);
            c[k].announced = true;
        }
    }

    fn drop_limit(&mut self, k: usize) {
        for c in std::iter::once(&mut self.main.stages).chain(self.twin.as_mut().map(|t| &mut t.stages)) {
            // A value announced through an Observable but not yet polled is
            // lost when the Observable is dropped (its stream ends at once):
            // the adapter legitimately keeps the limit it has.
            if matches!(c[k].lim_src, Some(LimSrc::Obs | LimSrc::ObsReset)) {
                c[k].expect_lim = c[k].lim;
            }
            c[k].ctl.drop_source();
        }
    }

    fn run_txn(&mut self, toks: &[Tok], start: usize, st: &mut Stats) -> Result<usize, Violation> {
        let mut work = self.vec.clone();
        let mut ob = self.ob.take().unwrap();
        let mut i = start + 1;
        let res = (|| -> Result<usize, Violation> {
            let mut txn = ob.transaction();
            self.after_token(st)?;
            loop {
                if i >= toks.len() {
                    drop(txn);
                    return Ok(i);
                }
                self.step = i;
                st.transitions += 1;
                match toks[i] {
                    Tok::Op(op) => {
                        let id0 = self.next_id;
                        Self::apply_real(&mut txn, op, self.cfg.nkeys, id0);
                        op_effect(op, self.cfg.nkeys, &mut work, &mut self.next_id);
                    }
                    Tok::TxnCommit => {
                        txn.commit();
                        self.vec = work.clone();
                        st.hit("txn_committed");
                        self.after_token(st)?;
                        return Ok(i + 1);
                    }
                    Tok::TxnDrop => {
                        drop(txn);
                        self.after_token(st)?;
                        return Ok(i + 1);
                    }
                    Tok::SetLimit(k, n) => self.set_limit(k as usize, n as usize),
                    Tok::DropLimit(k) => self.drop_limit(k as usize),
                    Tok::Poll => {
                        let cx = Ctx { step: self.step, prop: self.cfg.prop, model: &self.vec, alive: self.alive };
                        self.main.poll(&cx, st)?;
                    }
                    Tok::Drain => {
                        self.drain_all(st)?;
                    }
                    Tok::TxnBegin | Tok::DropVec | Tok::Stack => unreachable!(),
                }
                self.after_token(st)?;
                i += 1;
            }
        })();
        self.ob = Some(ob);
        res
    }
}

trait VecLike<E: El> {
    fn v_append(&mut self, v: Vector<E>);
    fn v_clear(&mut self);
    fn v_push_front(&mut self, v: E);
    fn v_push_back(&mut self, v: E);
    fn v_pop_front(&mut self);
    fn v_pop_back(&mut self);
    fn v_insert(&mut self, i: usize, v: E);
    fn v_set(&mut self, i: usize, v: E);
    fn v_remove(&mut self, i: usize);
    fn v_truncate(&mut self, n: usize);
}

macro_rules! veclike {
    ($t:ty) => {
        impl<E: El> VecLike<E> for $t {
            fn v_append(&mut self, v: Vector<E>) {
                self.append(v)
            }
            fn v_clear(&mut self) {
                self.clear()
            }
            fn v_push_front(&mut self, v: E) {
                self.push_front(v)
            }
            fn v_push_back(&mut self, v: E) {
                self.push_back(v)
            }
            fn v_pop_front(&mut self) {
                self.pop_front();
            }
            fn v_pop_back(&mut self) {
                self.pop_back();
            }
            fn v_insert(&mut self, i: usize, v: E) {
                self.insert(i, v)
            }
            fn v_set(&mut self, i: usize, v: E) {
                self.set(i, v);
            }
            fn v_remove(&mut self, i: usize) {
                self.remove(i);
            }
            fn v_truncate(&mut self, n: usize) {
                self.truncate(n)
            }
        }
    };
}
veclike!(ObservableVector<E>);
veclike!(eyeball_im::ObservableVectorTransaction<'_, E>);
