//! Flag wakers: every poll gets a fresh one, and the harness can ask later
//! whether exactly that waker was woken.

use std::{
    sync::{
        atomic::{AtomicUsize, Ordering},
        Arc,
    },
    task::{Wake, Waker},
};

#[derive(Debug, Default)]
pub struct Flag(AtomicUsize);

impl Flag {
    pub fn woken(&self) -> bool {
        self.0.load(Ordering::SeqCst) > 0
    }
    pub fn count(&self) -> usize {
        self.0.load(Ordering::SeqCst)
    }
    pub fn clear(&self) {
        self.0.store(0, Ordering::SeqCst);
    }
}

impl Wake for Flag {
    fn wake(self: Arc<Self>) {
        self.0.fetch_add(1, Ordering::SeqCst);
    }
    fn wake_by_ref(self: &Arc<Self>) {
        self.0.fetch_add(1, Ordering::SeqCst);
    }
}

pub fn flag_waker() -> (Arc<Flag>, Waker) {
    let f = Arc::new(Flag::default());
    (f.clone(), Waker::from(f))
}
