//! The explorer: enumerates every token sequence up to a depth bound for every
//! configuration of a sweep (iterative deepening, depth-first inside a depth),
//! executing each maximal sequence on fresh real objects through
//! `Harness::run`. The model is only used to know which tokens are enabled; it
//! never runs without the implementation next to it (`run` advances its own
//! copy in lock-step).

use std::{
    cell::RefCell,
    collections::{hash_map::DefaultHasher, BTreeMap},
    fmt::Debug,
    hash::{Hash, Hasher},
    panic::{catch_unwind, AssertUnwindSafe},
    sync::{
        atomic::{AtomicBool, AtomicU64, AtomicUsize, Ordering},
        Mutex,
    },
    time::{Duration, Instant},
};

#[derive(Clone, Debug)]
pub struct Violation {
    /// Property whose oracle failed.
    pub prop: &'static str,
    /// Index of the token at which the oracle failed (== number of tokens for
    /// the epilogue).
    pub step: usize,
    /// Coarse, stable classification; matched against known_findings.json.
    pub sig: String,
    /// Expected vs. observed.
    pub detail: String,
}

#[derive(Default, Clone, Debug)]
pub struct Stats {
    pub counters: BTreeMap<&'static str, u64>,
    pub transitions: u64,
    /// Set by `run` when the property's interesting event occurred in this
    /// sequence.
    pub nontrivial: bool,
}

impl Stats {
    #[inline]
    pub fn hit(&mut self, k: &'static str) {
        *self.counters.entry(k).or_insert(0) += 1;
    }
    #[inline]
    pub fn mark(&mut self, k: &'static str) {
        self.hit(k);
        self.nontrivial = true;
    }
    fn merge(&mut self, o: &Stats) {
        for (k, v) in &o.counters {
            *self.counters.entry(k).or_insert(0) += v;
        }
        self.transitions += o.transitions;
    }
}

pub trait Harness: Sync {
    type Cfg: Clone + Send + Sync + Debug;
    type Tok: Clone + Send + Sync + Debug;
    type Model: Clone + Hash;

    fn init(&self, cfg: &Self::Cfg) -> Self::Model;
    /// Enabled tokens, simplest first.
    fn enabled(&self, cfg: &Self::Cfg, m: &Self::Model, out: &mut Vec<Self::Tok>);
    fn step(&self, cfg: &Self::Cfg, m: &mut Self::Model, t: &Self::Tok);
    /// Build fresh real objects, execute `toks`, check the oracles after every
    /// token and in the epilogue.
    fn run(&self, cfg: &Self::Cfg, toks: &[Self::Tok], st: &mut Stats) -> Result<(), Violation>;
    /// Property blamed for a panic escaping `run`.
    fn panic_prop(&self, cfg: &Self::Cfg) -> &'static str;
}

pub struct Sweep<'a, H: Harness> {
    pub name: String,
    pub h: &'a H,
    pub cfgs: Vec<H::Cfg>,
    pub depth: usize,
}

// ---------------------------------------------------------------------------
// Known findings

#[derive(Clone, Debug)]
pub struct Finding {
    pub property: String,
    pub id: String,
    pub sig: String,
    pub what: String,
}

#[derive(Clone, Debug, Default)]
pub struct Findings {
    pub open: Vec<Finding>,
}

impl Findings {
    pub fn load(path: &str) -> Findings {
        let mut out = Findings::default();
        let Ok(txt) = std::fs::read_to_string(path) else { return out };
        let v: serde_json::Value = serde_json::from_str(&txt).expect("known_findings.json is not valid JSON");
        if let Some(arr) = v.get("findings").and_then(|a| a.as_array()) {
            for f in arr {
                let g = |k: &str| f.get(k).and_then(|s| s.as_str()).unwrap_or("").to_string();
                out.open.push(Finding { property: g("property"), id: g("id"), sig: g("signature"), what: g("what") });
            }
        }
        out
    }
    pub fn matches(&self, prop: &str, sig: &str) -> Option<&Finding> {
        self.open.iter().find(|f| f.property == prop && f.sig == sig)
    }
}

// ---------------------------------------------------------------------------

pub struct Opts {
    pub prop: String,
    pub deadline: Instant,
    pub threads: usize,
    pub findings: Findings,
    /// Keep exploring deeper after a violation was found at some depth.
    pub continue_after_violation: bool,
    /// Crash localisation: overwrite this file with the sequence about to be
    /// executed (single-threaded re-run after the process died on a signal).
    pub trace_file: Option<String>,
    /// With `trace_file`: only leaves whose global sequence number lies in
    /// [seq_from, seq_to] are executed.
    pub seq_from: u64,
    pub seq_to: u64,
}

static LEAF_SEQ: AtomicU64 = AtomicU64::new(0);

#[derive(Clone, Debug)]
pub struct Found {
    pub sweep: String,
    pub cfg_idx: usize,
    pub cfg: String,
    pub choices: Vec<u32>,
    pub tokens: Vec<String>,
    pub v: Violation,
}

#[derive(Clone, Debug, Default)]
pub struct KnownHit {
    pub count: u64,
    pub example: Option<Found>,
}

#[derive(Default)]
pub struct Acc {
    pub evaluations: u64,
    pub nontrivial: u64,
    pub stats: Stats,
    pub foreign: u64,
    pub foreign_by_prop: BTreeMap<String, u64>,
    pub known: BTreeMap<String, KnownHit>,
    pub violations: Vec<Found>,
    pub cap_hit: bool,
    pub sweeps: Vec<serde_json::Value>,
    pub samples: Vec<serde_json::Value>,
    pub states: u64,
}

const BITMAP_BITS: u64 = 1 << 30;

struct Bitmap(Vec<AtomicU64>);
impl Bitmap {
    fn new() -> Self {
        let n = (BITMAP_BITS / 64) as usize;
        let mut v = Vec::with_capacity(n);
        v.resize_with(n, || AtomicU64::new(0));
        Bitmap(v)
    }
    #[inline]
    fn set(&self, h: u64) {
        let b = h % BITMAP_BITS;
        let w = &self.0[(b / 64) as usize];
        let m = 1u64 << (b % 64);
        if w.load(Ordering::Relaxed) & m == 0 {
            w.fetch_or(m, Ordering::Relaxed);
        }
    }
    fn count(&self) -> u64 {
        self.0.iter().map(|w| w.load(Ordering::Relaxed).count_ones() as u64).sum()
    }
}

thread_local! {
    static LAST_PANIC: RefCell<String> = RefCell::new(String::new());
}

/// Install a panic hook that records the message instead of printing it
/// (out-of-range panics are expected by C17/C18; anything else becomes a
/// violation carrying the message).
pub fn install_quiet_panic_hook() {
    std::panic::set_hook(Box::new(|info| {
        let msg = if let Some(s) = info.payload().downcast_ref::<&str>() {
            s.to_string()
        } else if let Some(s) = info.payload().downcast_ref::<String>() {
            s.clone()
        } else {
            "<non-string panic>".to_string()
        };
        let loc = info.location().map(|l| format!(" at {}:{}", l.file(), l.line())).unwrap_or_default();
        LAST_PANIC.with(|p| *p.borrow_mut() = format!("{msg}{loc}"));
    }));
}

pub fn last_panic() -> String {
    LAST_PANIC.with(|p| p.borrow().clone())
}

struct Work {
    cfg_idx: usize,
    prefix: Vec<u32>,
}

struct Shared<'a, H: Harness> {
    sw: &'a Sweep<'a, H>,
    opts: &'a Opts,
    bitmap: &'a Bitmap,
    next: AtomicUsize,
    work: Vec<Work>,
    stop: AtomicBool,
    cap: AtomicBool,
    out: Mutex<Acc>,
    depth: usize,
}

struct Local {
    evaluations: u64,
    nontrivial: u64,
    stats: Stats,
    foreign: BTreeMap<String, u64>,
    known: BTreeMap<String, KnownHit>,
    violations: Vec<Found>,
    samples: Vec<serde_json::Value>,
    since_check: u32,
}

fn hash_state<M: Hash>(cfg_idx: usize, m: &M) -> u64 {
    let mut h = DefaultHasher::new();
    cfg_idx.hash(&mut h);
    m.hash(&mut h);
    h.finish()
}

/// Execute one sequence, converting a panic into a violation.
pub fn run_one<H: Harness>(h: &H, cfg: &H::Cfg, toks: &[H::Tok], st: &mut Stats) -> Result<(), Violation> {
    match catch_unwind(AssertUnwindSafe(|| h.run(cfg, toks, st))) {
        Ok(r) => r,
        Err(_) => Err(Violation {
            prop: h.panic_prop(cfg),
            step: toks.len(),
            sig: "panic".into(),
            detail: format!("panic escaped the library or the harness: {}", last_panic()),
        }),
    }
}

fn leaf<H: Harness>(sh: &Shared<'_, H>, lo: &mut Local, cfg_idx: usize, toks: &[H::Tok], choices: &[u32]) {
    let cfg = &sh.sw.cfgs[cfg_idx];
    if let Some(tf) = &sh.opts.trace_file {
        let seq = LEAF_SEQ.fetch_add(1, Ordering::SeqCst);
        if seq < sh.opts.seq_from {
            return;
        }
        if seq > sh.opts.seq_to {
            sh.stop.store(true, Ordering::SeqCst);
            return;
        }
        let v = serde_json::json!({"seq": seq, "sweep": sh.sw.name, "cfg_index": cfg_idx, "cfg": format!("{:?}", cfg), "choices": choices,
            "tokens": toks.iter().map(|t| format!("{:?}", t)).collect::<Vec<_>>()});
        let _ = std::fs::write(tf, v.to_string());
    }
    let mut st = Stats::default();
    let r = run_one(sh.sw.h, cfg, toks, &mut st);
    lo.evaluations += 1;
    if st.nontrivial {
        lo.nontrivial += 1;
    }
    lo.stats.merge(&st);
    if lo.samples.len() < 2 && (st.nontrivial || lo.evaluations == 1) {
        lo.samples.push(serde_json::json!({
            "sweep": sh.sw.name, "cfg": format!("{:?}", cfg),
            "tokens": toks.iter().map(|t| format!("{:?}", t)).collect::<Vec<_>>(),
            "nontrivial": st.nontrivial, "result": if r.is_ok() { "ok".to_string() } else { format!("{:?}", r.as_ref().err().unwrap().sig) },
        }));
    }
    if let Err(v) = r {
        let mk = |v: Violation| Found {
            sweep: sh.sw.name.clone(),
            cfg_idx,
            cfg: format!("{:?}", cfg),
            choices: choices.to_vec(),
            tokens: toks.iter().map(|t| format!("{:?}", t)).collect(),
            v,
        };
        if v.prop != sh.opts.prop {
            *lo.foreign.entry(v.prop.to_string()).or_insert(0) += 1;
        } else if let Some(f) = sh.opts.findings.matches(v.prop, &v.sig) {
            let e = lo.known.entry(f.id.clone()).or_default();
            e.count += 1;
            if e.example.is_none() {
                e.example = Some(mk(v));
            }
        } else if lo.violations.len() < 2000 {
            lo.violations.push(mk(v));
        }
    }
    lo.since_check += 1;
    if lo.since_check >= 512 {
        lo.since_check = 0;
        if Instant::now() >= sh.opts.deadline {
            sh.cap.store(true, Ordering::SeqCst);
            sh.stop.store(true, Ordering::SeqCst);
        }
    }
}

fn dfs<H: Harness>(
    sh: &Shared<'_, H>,
    lo: &mut Local,
    cfg_idx: usize,
    model: &H::Model,
    toks: &mut Vec<H::Tok>,
    choices: &mut Vec<u32>,
    left: usize,
) {
    if left == 0 {
        leaf(sh, lo, cfg_idx, toks, choices);
        return;
    }
    if sh.stop.load(Ordering::Relaxed) {
        return;
    }
    let cfg = &sh.sw.cfgs[cfg_idx];
    let mut en = Vec::new();
    sh.sw.h.enabled(cfg, model, &mut en);
    for (i, t) in en.into_iter().enumerate() {
        let mut m2 = model.clone();
        sh.sw.h.step(cfg, &mut m2, &t);
        sh.bitmap.set(hash_state(cfg_idx, &m2));
        toks.push(t);
        choices.push(i as u32);
        dfs(sh, lo, cfg_idx, &m2, toks, choices, left - 1);
        toks.pop();
        choices.pop();
    }
}

fn gen_prefixes<H: Harness>(sw: &Sweep<'_, H>, cfg_idx: usize, p: usize, out: &mut Vec<Work>) {
    fn rec<H: Harness>(sw: &Sweep<'_, H>, cfg_idx: usize, m: &H::Model, cur: &mut Vec<u32>, left: usize, out: &mut Vec<Work>) {
        if left == 0 {
            out.push(Work { cfg_idx, prefix: cur.clone() });
            return;
        }
        let cfg = &sw.cfgs[cfg_idx];
        let mut en = Vec::new();
        sw.h.enabled(cfg, m, &mut en);
        for (i, t) in en.iter().enumerate() {
            let mut m2 = m.clone();
            sw.h.step(cfg, &mut m2, t);
            cur.push(i as u32);
            rec(sw, cfg_idx, &m2, cur, left - 1, out);
            cur.pop();
        }
    }
    let m = sw.h.init(&sw.cfgs[cfg_idx]);
    rec(sw, cfg_idx, &m, &mut Vec::new(), p, out);
}

fn worker<H: Harness>(sh: &Shared<'_, H>) {
    let mut lo = Local {
        evaluations: 0,
        nontrivial: 0,
        stats: Stats::default(),
        foreign: BTreeMap::new(),
        known: BTreeMap::new(),
        violations: Vec::new(),
        samples: Vec::new(),
        since_check: 0,
    };
    loop {
        if sh.stop.load(Ordering::Relaxed) {
            break;
        }
        let i = sh.next.fetch_add(1, Ordering::SeqCst);
        if i >= sh.work.len() {
            break;
        }
        let w = &sh.work[i];
        let cfg = &sh.sw.cfgs[w.cfg_idx];
        let mut m = sh.sw.h.init(cfg);
        if w.prefix.is_empty() {
            sh.bitmap.set(hash_state(w.cfg_idx, &m));
        }
        let mut toks = Vec::new();
        let mut choices = Vec::new();
        for &c in &w.prefix {
            let mut en = Vec::new();
            sh.sw.h.enabled(cfg, &m, &mut en);
            let t = en[c as usize].clone();
            sh.sw.h.step(cfg, &mut m, &t);
            sh.bitmap.set(hash_state(w.cfg_idx, &m));
            toks.push(t);
            choices.push(c);
        }
        let left = sh.depth - w.prefix.len();
        dfs(sh, &mut lo, w.cfg_idx, &m, &mut toks, &mut choices, left);
    }
    let mut out = sh.out.lock().unwrap();
    out.evaluations += lo.evaluations;
    out.nontrivial += lo.nontrivial;
    out.stats.merge(&lo.stats);
    for (k, v) in lo.foreign {
        out.foreign += v;
        *out.foreign_by_prop.entry(k).or_insert(0) += v;
    }
    for (k, v) in lo.known {
        let e = out.known.entry(k).or_default();
        e.count += v.count;
        let better = match (&e.example, &v.example) {
            (None, Some(_)) => true,
            (Some(a), Some(b)) => (b.choices.len(), b.cfg_idx, &b.choices) < (a.choices.len(), a.cfg_idx, &a.choices),
            _ => false,
        };
        if better {
            e.example = v.example;
        }
    }
    out.violations.extend(lo.violations);
    if out.samples.len() < 6 {
        out.samples.extend(lo.samples);
    }
}

/// Explore one sweep, depth 0..=sw.depth, adding to `acc`.
pub fn explore<H: Harness>(sw: &Sweep<'_, H>, opts: &Opts, acc: &mut Acc, bitmap_holder: &mut Option<BitmapHolder>) {
    let bitmap = bitmap_holder.get_or_insert_with(|| BitmapHolder(Bitmap::new()));
    let t0 = Instant::now();
    let mut completed_depth: i64 = -1;
    let mut per_depth = Vec::new();
    let before_eval = acc.evaluations;
    // `VERIF_EXTRA_DEPTH=n` deepens every sweep by n tokens (same alphabet, same
    // oracles); the evidence records the bound that was really used.
    let bound = depth_bound(sw.depth);
    'depths: for depth in 0..=bound {
        let p = if depth == 0 { 0 } else if sw.cfgs.len() >= 256 { 1.min(depth) } else { 2.min(depth) };
        let mut work = Vec::new();
        for ci in 0..sw.cfgs.len() {
            gen_prefixes(sw, ci, p, &mut work);
        }
        let sh = Shared {
            sw,
            opts,
            bitmap: &bitmap.0,
            next: AtomicUsize::new(0),
            work,
            stop: AtomicBool::new(false),
            cap: AtomicBool::new(false),
            out: Mutex::new(Acc::default()),
            depth,
        };
        std::thread::scope(|s| {
            for _ in 0..opts.threads {
                s.spawn(|| worker(&sh));
            }
        });
        let part = sh.out.into_inner().unwrap();
        per_depth.push(serde_json::json!({"depth": depth, "sequences": part.evaluations}));
        acc.evaluations += part.evaluations;
        acc.nontrivial += part.nontrivial;
        acc.stats.merge(&part.stats);
        acc.foreign += part.foreign;
        for (k, v) in part.foreign_by_prop {
            *acc.foreign_by_prop.entry(k).or_insert(0) += v;
        }
        for (k, v) in part.known {
            let e = acc.known.entry(k).or_default();
            e.count += v.count;
            if e.example.is_none() {
                e.example = v.example;
            }
        }
        if acc.samples.len() < 8 {
            acc.samples.extend(part.samples.into_iter().take(2));
        }
        let had_violation = !part.violations.is_empty();
        acc.violations.extend(part.violations);
        if sh.cap.load(Ordering::SeqCst) {
            acc.cap_hit = true;
            break 'depths;
        }
        completed_depth = depth as i64;
        if had_violation && !opts.continue_after_violation {
            break 'depths;
        }
    }
    acc.sweeps.push(serde_json::json!({
        "sweep": sw.name,
        "configurations": sw.cfgs.len(),
        "depth_bound": bound,
        "completed_depth": completed_depth,
        "sequences": acc.evaluations - before_eval,
        "per_depth": per_depth,
        "wall_s": t0.elapsed().as_secs_f64(),
    }));
    acc.states = bitmap.0.count();
}

/// The depth bound really used for a sweep registered with depth `d`.
pub fn depth_bound(d: usize) -> usize {
    d + std::env::var("VERIF_EXTRA_DEPTH").ok().and_then(|s| s.parse::<usize>().ok()).unwrap_or(0)
}

pub struct BitmapHolder(Bitmap);

/// Re-derive a token sequence from its choice indices.
pub fn tokens_from_choices<H: Harness>(h: &H, cfg: &H::Cfg, choices: &[u32]) -> Option<Vec<H::Tok>> {
    let mut m = h.init(cfg);
    let mut toks = Vec::new();
    for &c in choices {
        let mut en = Vec::new();
        h.enabled(cfg, &m, &mut en);
        let t = en.get(c as usize)?.clone();
        h.step(cfg, &mut m, &t);
        toks.push(t);
    }
    Some(toks)
}

pub fn default_deadline(tier: &str) -> Instant {
    let secs = std::env::var("VERIF_TIME_CAP_S").ok().and_then(|s| s.parse::<u64>().ok()).unwrap_or(if tier == "quick" {
        900
    } else {
        3 * 3600
    });
    Instant::now() + Duration::from_secs(secs)
}
